package props

// C16 / C07: the library PROVER path for consensus storage proofs of multi-sector files.
//
// A host builds the v1/v2 storage proof of segment `seg` of sector `i` of a contract with `s`
// sectors from three library functions:
//     rhp2.BuildProof(sector, seg, seg+1, nil)              (inside the sector, left-to-right)
//     rhp2.BuildSectorRangeProof(sectorRoots, i, i+1)        (over the sector roots, left-to-right)
//     rhp2.ConvertProofOrdering(proof, index)                (to the leaf-to-root order of consensus)
// either converting the two parts separately and appending them (what hostd does), or converting
// the whole left-to-right proof (sector-level lefts ‖ BuildProof ‖ sector-level rights) with the
// global leaf index. Both must give THE leaf-to-root sibling list, and consensus
// (consensus/merkle.go storageProofRoot, and the v1 closure through consensus.ValidateTransaction)
// must accept it against rhp2.MetaRoot(sectorRoots) with Filesize = s*SectorSize — for every
// number of sectors, in particular the non-powers of two where the tree over the sector roots is
// unbalanced. Oracle: the plain tree (c16ORoot / c07pPath). Model: rhp-convert, rhp-buildrange,
// sp-root2, sp-verify1.

import (
	"encoding/hex"
	"fmt"
	"math/bits"

	"go.sia.tech/core/consensus"
	rhp2 "go.sia.tech/core/rhp/v2"
	"go.sia.tech/core/types"
	"verif/harness/internal/fw"
)

func c16ProverPath(c *fw.Ctx, model func(op, out string)) {
	res := c.Res
	maxS := c.Budget(9, 17)
	// sectors are generated once; a file of s sectors consists of the first s of them
	sectors := make([]*[rhp2.SectorSize]byte, maxS)
	roots := make([]c16H, maxS)
	oroots := make([]c16H, maxS)
	for i := range sectors {
		sectors[i] = new([rhp2.SectorSize]byte)
		c.Rng.Read(sectors[i][:4096]) // cheap: a random head, the rest a per-sector pattern
		for j := 4096; j < len(sectors[i]); j += 64 {
			sectors[i][j] = byte(i)
			sectors[i][j+1] = byte(j >> 6)
			sectors[i][j+2] = byte(j >> 14)
		}
		roots[i] = rhp2.SectorRoot(sectors[i])
	}
	oleaves := make([][]c16H, maxS) // oracle leaf hashes per sector (computed on demand)
	oleafHashes := func(i int) []c16H {
		if oleaves[i] == nil {
			oleaves[i] = c16OLeafHashes(sectors[i][:])
			oroots[i] = c16ORoot(oleaves[i])
		}
		return oleaves[i]
	}
	verdictV1 := func(tax, spFork uint64, fcid types.FileContractID, wid types.BlockID, fs uint64, root c16H, leaf [64]byte, proof []c16H) string {
		n := &consensus.Network{}
		n.HardforkTax.Height = tax
		n.HardforkStorageProof.Height = spFork
		n.HardforkV2.AllowHeight = 100000
		n.HardforkV2.RequireHeight = 200000
		s := consensus.State{Network: n, Index: types.ChainIndex{Height: 10}}
		fce := types.FileContractElement{ID: fcid, FileContract: types.FileContract{Filesize: fs, FileMerkleRoot: root, WindowStart: 5, WindowEnd: 50}}
		ts := consensus.V1TransactionSupplement{StorageProofs: []consensus.V1StorageProofSupplement{{FileContract: fce, WindowID: wid}}}
		txn := types.Transaction{StorageProofs: []types.StorageProof{{ParentID: fcid, Leaf: leaf, Proof: proof}}}
		var err error
		if p, msg := fw.Recover(func() { err = consensus.ValidateTransaction(consensus.NewMidState(s), txn, ts) }); p {
			return "panic: " + msg
		}
		if err == nil {
			return "1"
		}
		return "0"
	}
	var st consensus.State
	for s := 1; s <= maxS; s++ {
		fs := uint64(s) * rhp2.SectorSize
		fileRoot := rhp2.MetaRoot(roots[:s])
		targets := map[int]bool{0: true, s - 1: true, s / 2: true}
		for target := range targets {
			// a contract id / window id whose challenge falls into the target sector
			var fcid types.FileContractID
			var wid types.BlockID
			var g uint64
			found := false
			for tries := 0; tries < 2000 && !found; tries++ {
				c.Rng.Read(fcid[:])
				c.Rng.Read(wid[:])
				g = consensus.State{Network: &consensus.Network{}}.StorageProofLeafIndex(fs, wid, fcid)
				found = int(g/rhp2.LeavesPerSector) == target
			}
			if !found {
				res.Count("prover:target-sector-not-hit")
				continue
			}
			i, seg := g/rhp2.LeavesPerSector, g%rhp2.LeavesPerSector
			name := fmt.Sprintf("sectors=%d sector=%d segment=%d", s, i, seg)
			res.Eval("prover "+name+" "+c16Hex(fileRoot), s >= 2)
			res.Count(fmt.Sprintf("prover:sectors:%d", s))
			if s&(s-1) != 0 {
				res.Count("prover:unbalanced-sector-tree")
			}
			rep := func(what string) map[string]any {
				return map[string]any{"kind": "prover", "sectors": s, "sector": i, "segment": seg, "what": what,
					"fcid": hex.EncodeToString(fcid[:]), "window": hex.EncodeToString(wid[:]), "sector_roots": c16HexList(roots[:s])}
			}
			var leaf [64]byte
			copy(leaf[:], sectors[i][seg*64:])
			// the library prover
			var segLR, secLR, pathSplit, pathGlobal, segConv, secConv []c16H
			if p, msg := fw.Recover(func() {
				segLR = rhp2.BuildProof(sectors[i], seg, seg+1, nil)
				secLR = rhp2.BuildSectorRangeProof(roots[:s], i, i+1)
				segConv = rhp2.ConvertProofOrdering(segLR, seg)
				secConv = rhp2.ConvertProofOrdering(secLR, i)
				pathSplit = append(c16CopyHashes(segConv), secConv...)
				nl := bits.OnesCount64(i)
				globalLR := append(append(c16CopyHashes(secLR[:nl]), segLR...), secLR[nl:]...)
				pathGlobal = rhp2.ConvertProofOrdering(globalLR, g)
			}); p {
				res.Violate(fw.Violation{Key: "c16-panic:prover-path", What: "the library prover path panicked, " + name + ": " + msg, Replay: rep("build"), Expected: "a proof", Observed: "panic: " + msg})
				continue
			}
			// oracle: the leaf-to-root sibling list of the plain tree
			opath := append(c07pPath(oleafHashes(int(i)), int(seg)), c07pPath(func() []c16H {
				for k := 0; k < s; k++ {
					oleafHashes(k)
				}
				return oroots[:s]
			}(), int(i))...)
			oroot := c16ORoot(oroots[:s])
			if fileRoot != oroot {
				res.Violate(fw.Violation{Key: "c16-root-mismatch:MetaRoot-of-SectorRoots", What: "MetaRoot(SectorRoot(sector)...) differs from the plain tree over all segments, " + name, Replay: rep("root"), Expected: c16Hex(oroot), Observed: c16Hex(fileRoot)})
			}
			for _, pp := range []struct {
				how  string
				path []c16H
			}{{"split", pathSplit}, {"global", pathGlobal}} {
				if !c16HashesEqual(pp.path, opath) {
					res.Violate(fw.Violation{Key: "c16-convert-multisector:path-mismatch:" + pp.how,
						What:     fmt.Sprintf("BuildProof+BuildSectorRangeProof+ConvertProofOrdering (%s conversion) is not the leaf-to-root sibling list of the plain tree (%d hashes, expected %d), %s", pp.how, len(pp.path), len(opath), name),
						Replay:   rep("path-" + pp.how), Expected: c16HexList(opath), Observed: c16HexList(pp.path)})
				}
				// (a) consensus accepts the honest proof
				var got c16H
				fw.Recover(func() { got = consensus.VerifStorageProofRoot(st.StorageProofLeafHash(leaf[:]), g, fs, pp.path) })
				if got != fileRoot {
					res.Violate(fw.Violation{Key: "c16-honest-proof-rejected:convert-multisector",
						What:     fmt.Sprintf("consensus storageProofRoot does not fold the library-built storage proof (%s conversion) to MetaRoot(sectorRoots), %s", pp.how, name),
						Replay:   rep("v2-" + pp.how), Expected: c16Hex(fileRoot), Observed: c16Hex(got)})
				}
				v1 := verdictV1(0, 0, fcid, wid, fs, fileRoot, leaf, pp.path)
				v0 := verdictV1(1000, 2000, fcid, wid, fs, fileRoot, leaf, pp.path)
				if v1 != "1" || v0 != "1" {
					res.Violate(fw.Violation{Key: "c16-honest-proof-rejected:convert-multisector",
						What:     fmt.Sprintf("consensus.ValidateTransaction rejects the library-built v1 storage proof (%s conversion; verdict current era %s, pre-tax era %s), %s", pp.how, v1, v0, name),
						Replay:   rep("v1-" + pp.how), Expected: "1", Observed: v1 + "/" + v0})
				}
				res.Count("prover:" + pp.how + ":verdict-" + v1)
				model(fmt.Sprintf("sp-root2 %s %d %d %s", hex.EncodeToString(leaf[:]), g, fs, c16HexList(pp.path)), c16Hex(got))
				model(fmt.Sprintf("sp-verify1 2 %d %d %s %s %s", g, fs, hex.EncodeToString(leaf[:]), c16HexList(pp.path), c16Hex(fileRoot)), v1)
			}
			// (b) the model of the prover pieces
			model(fmt.Sprintf("rhp-buildrange %s %d %d", c16HexList(roots[:s]), i, i+1), "ok "+c16HexList(secLR))
			model(fmt.Sprintf("rhp-convert %s %d", c16HexList(secLR), i), "ok "+c16HexList(secConv))
			model(fmt.Sprintf("rhp-convert %s %d", c16HexList(segLR), seg), "ok "+c16HexList(segConv))
			// a corrupted path must be rejected by the real closure
			if len(pathSplit) > 0 {
				k := c.Rng.Intn(len(pathSplit))
				bad := c16CopyHashes(pathSplit)
				bad[k][c.Rng.Intn(32)] ^= 1
				if v := verdictV1(0, 0, fcid, wid, fs, fileRoot, leaf, bad); v != "0" {
					res.Violate(fw.Violation{Key: "c16-accepts-corrupt:convert-multisector:proof-hash", What: "ValidateTransaction accepts a library-built storage proof with one hash flipped, " + name, Replay: rep("corrupt"), Expected: "0", Observed: v})
				}
			}
		}
	}
}
