package props

// C13 — Difficulty retargeting is total, clamped, identical for headers and full
// blocks.
//
// Go side:
//   (a) header chains: generated well-formed networks × timestamp sequences across
//       every era boundary; after every header the full PoW state of the real
//       ApplyHeader is compared with the Lean model (`pow-apply`) and checked by a
//       statement-level oracle (clamp of the era, never zero, total work monotone,
//       inverse relation, no panic);
//   (b) ValidateHeader on crafted headers against the four conditions of the
//       statement and against the model (`pow-validate`);
//   (c) real mined blocks: ApplyBlock vs ApplyHeader on the block's header;
//   (d) the individual unexported functions through the hooks of
//       consensus/verif_pow.go on perturbed states (`pow-adjust`, `pow-work`,
//       `pow-tgt`, `pow-median`), including the float64 boundary ratios of the
//       pre-Oak clamp;
//   (e) SufficientlyHeavierThan asymmetry on random state pairs (`pow-heavier`).

import (
	"encoding/hex"
	"encoding/json"
	"fmt"
	"math/big"
	"math/rand"
	"sort"
	"strings"
	"time"

	"go.sia.tech/core/consensus"
	"go.sia.tech/core/types"
	"verif/harness/internal/fw"
)

func init() { fw.Register("C13", runC13) }

var (
	c13Two256 = new(big.Int).Lsh(big.NewInt(1), 256)
	c13MaxT   = new(big.Int).Sub(c13Two256, big.NewInt(1))
)

const c13ZeroTimeUnix = -62135596800

// ---------------------------------------------------------------- conversions

func c13BigID(id types.BlockID) *big.Int { return new(big.Int).SetBytes(id[:]) }
func c13BigW(w consensus.Work) *big.Int {
	b := consensus.VerifWorkBytes(w)
	return new(big.Int).SetBytes(b[:])
}
func c13IDOf(b *big.Int) (id types.BlockID) {
	new(big.Int).Mod(b, c13Two256).FillBytes(id[:])
	return
}
func c13WorkOf(b *big.Int) consensus.Work {
	var n [32]byte
	new(big.Int).Mod(b, c13Two256).FillBytes(n[:])
	return consensus.VerifWorkFromBytes(n)
}

func c13NetTokens(n *consensus.Network) string {
	return fmt.Sprintf("%d %s %d %d %d %d %d %s %d %d %d",
		int64(n.BlockInterval), c13BigID(n.InitialTarget), n.HardforkOak.Height, n.HardforkOak.FixHeight,
		n.HardforkOak.GenesisTimestamp.Unix(), n.HardforkASIC.Height, int64(n.HardforkASIC.OakTime),
		c13BigID(n.HardforkASIC.OakTarget), n.HardforkASIC.NonceFactor, n.HardforkV2.AllowHeight, n.HardforkV2.FinalCutHeight)
}

func c13StateTokens(s consensus.State) string {
	var sb strings.Builder
	fmt.Fprintf(&sb, "%d %s", s.Index.Height, c13BigID(s.Index.ID))
	for _, t := range s.PrevTimestamps {
		fmt.Fprintf(&sb, " %d", t.Unix())
	}
	fmt.Fprintf(&sb, " %s %s %d %s %s %s %s", c13BigID(s.Depth), c13BigID(s.ChildTarget), int64(s.OakTime),
		c13BigID(s.OakTarget), c13BigW(s.TotalWork), c13BigW(s.Difficulty), c13BigW(s.OakWork))
	return sb.String()
}

func c13HeaderTokens(bh types.BlockHeader) string {
	return fmt.Sprintf("%s %d %d %s", c13BigID(bh.ParentID), bh.Timestamp.Unix(), bh.Nonce, c13BigID(bh.ID()))
}

// parsing (replays only)
func c13ParseNet(tok []string) (*consensus.Network, bool) {
	if len(tok) != 11 {
		return nil, false
	}
	bi := func(s string) *big.Int { b, _ := new(big.Int).SetString(s, 10); return b }
	for _, t := range tok {
		if bi(t) == nil {
			return nil, false
		}
	}
	n := &consensus.Network{Name: "replay"}
	n.BlockInterval = time.Duration(bi(tok[0]).Int64())
	n.InitialTarget = c13IDOf(bi(tok[1]))
	n.HardforkOak.Height = bi(tok[2]).Uint64()
	n.HardforkOak.FixHeight = bi(tok[3]).Uint64()
	n.HardforkOak.GenesisTimestamp = time.Unix(bi(tok[4]).Int64(), 0)
	n.HardforkASIC.Height = bi(tok[5]).Uint64()
	n.HardforkASIC.OakTime = time.Duration(bi(tok[6]).Int64())
	n.HardforkASIC.OakTarget = c13IDOf(bi(tok[7]))
	n.HardforkASIC.NonceFactor = bi(tok[8]).Uint64()
	n.HardforkV2.AllowHeight = bi(tok[9]).Uint64()
	n.HardforkV2.FinalCutHeight = bi(tok[10]).Uint64()
	n.HardforkV2.RequireHeight = n.HardforkV2.AllowHeight
	return n, true
}

func c13ParseState(n *consensus.Network, tok []string) (consensus.State, bool) {
	var s consensus.State
	if len(tok) != 20 {
		return s, false
	}
	v := make([]*big.Int, 20)
	for i, t := range tok {
		b, ok := new(big.Int).SetString(t, 10)
		if !ok {
			return s, false
		}
		v[i] = b
	}
	s.Network = n
	s.Index.Height = v[0].Uint64()
	s.Index.ID = c13IDOf(v[1])
	for i := 0; i < 11; i++ {
		s.PrevTimestamps[i] = c13Time(v[2+i].Int64())
	}
	s.Depth = c13IDOf(v[13])
	s.ChildTarget = c13IDOf(v[14])
	s.OakTime = time.Duration(v[15].Int64())
	s.OakTarget = c13IDOf(v[16])
	s.TotalWork = c13WorkOf(v[17])
	s.Difficulty = c13WorkOf(v[18])
	s.OakWork = c13WorkOf(v[19])
	return s, true
}

// c13Time maps Unix seconds to the time.Time the code would hold (the zero Time
// for the zero-value slots of PrevTimestamps).
func c13Time(u int64) time.Time {
	if u == c13ZeroTimeUnix {
		return time.Time{}
	}
	return time.Unix(u, 0)
}

// ---------------------------------------------------------------- generators

func c13RandTarget(r *rand.Rand, loBits, hiBits int) types.BlockID {
	k := loBits + r.Intn(hiBits-loBits+1) // bit length
	b := new(big.Int).Lsh(big.NewInt(1), uint(k-1))
	switch r.Intn(3) {
	case 0: // power of two
	case 1: // all ones
		b.Sub(new(big.Int).Lsh(b, 1), big.NewInt(1))
	default:
		b.Add(b, new(big.Int).Rand(r, b))
	}
	if b.Cmp(c13MaxT) > 0 {
		b.Set(c13MaxT)
	}
	return c13IDOf(b)
}

type c13NetShape struct {
	name                                   string
	oak, fix, asic, allow, require, final_ uint64
}

// c13GenNetwork draws a parameter set satisfying NetworkWF (SiaModel/Pow/Header.lean):
// 1 ns ≤ BlockInterval ≤ 2^50 ns, whole seconds unless the pre-Oak retarget is never
// reached, targets and nonce factor non-zero, AllowHeight ≤ FinalCutHeight.
func c13GenNetwork(r *rand.Rand, shape int) (*consensus.Network, c13NetShape) {
	n := &consensus.Network{Name: "verif"}
	var sh c13NetShape
	g := func(lo, hi int) uint64 { return uint64(lo + r.Intn(hi-lo+1)) }
	switch shape {
	case 0: // every boundary a few blocks apart, pre-Oak retarget never reached
		sh.name = "short"
		sh.oak = g(1, 6)
		sh.fix = sh.oak + g(0, 4)
		sh.asic = sh.fix + g(1, 5)
		sh.allow = sh.asic + g(2, 40)
		sh.final_ = sh.allow + g(1, 60)
	case 1: // one or two pre-Oak retargets (heights 500, 1000)
		sh.name = "preoak"
		sh.oak = []uint64{500, 503, 1000, 1004, 1499}[r.Intn(5)]
		sh.fix = sh.oak + g(0, 6)
		sh.asic = sh.fix + g(1, 6)
		sh.allow = sh.asic + g(2, 30)
		sh.final_ = sh.allow + g(1, 40)
	case 2: // v2 from (almost) the start
		sh.name = "v2-early"
		sh.oak = g(0, 2)
		sh.fix = sh.oak + g(0, 1)
		sh.asic = sh.fix + g(0, 2)
		sh.allow = g(0, 3)
		if sh.allow < sh.asic && r.Intn(2) == 0 {
			sh.allow = sh.asic
		}
		sh.final_ = sh.allow + g(0, 50)
	default: // unordered Oak/ASIC heights (only Allow ≤ FinalCut is assumed by the code)
		sh.name = "unordered"
		sh.oak = g(0, 30)
		sh.fix = g(0, 40)
		sh.asic = g(0, 40)
		sh.allow = g(10, 60)
		sh.final_ = sh.allow + g(0, 40)
	}
	sh.require = sh.allow + (sh.final_-sh.allow)/2
	n.HardforkOak.Height, n.HardforkOak.FixHeight = sh.oak, sh.fix
	n.HardforkASIC.Height = sh.asic
	n.HardforkV2.AllowHeight, n.HardforkV2.RequireHeight, n.HardforkV2.FinalCutHeight = sh.allow, sh.require, sh.final_
	n.HardforkFoundation.Height = sh.asic + 1
	n.HardforkFoundation.PrimaryAddress = types.AnyoneCanSpend().Address()
	n.HardforkFoundation.FailsafeAddress = types.VoidAddress
	n.InitialCoinbase = types.Siacoins(300000)
	n.MinimumCoinbase = types.Siacoins(30000)
	n.MaturityDelay = 5

	secs := []int64{1, 2, 3, 5, 7, 10, 60, 600, 3600, 86400, 1125899} // ≤ 2^50 ns
	switch r.Intn(8) {
	case 0:
		if sh.oak < 500 { // sub-second interval (the test network's 10ms)
			n.BlockInterval = []time.Duration{10 * time.Millisecond, 1, 3, 999999999, 1500 * time.Millisecond, 2999999999}[r.Intn(6)]
			break
		}
		fallthrough
	case 1:
		n.BlockInterval = time.Duration(secs[r.Intn(len(secs))])*time.Second + time.Duration(r.Int63n(1e9))
		if int64(n.BlockInterval) > 1<<50 {
			n.BlockInterval = 1 << 50
		}
	case 2:
		n.BlockInterval = 10 * time.Minute
	default:
		n.BlockInterval = time.Duration(secs[r.Intn(len(secs))]) * time.Second
	}
	n.InitialTarget = c13RandTarget(r, 100, 256)
	if r.Intn(4) == 0 {
		n.InitialTarget = types.BlockID{0xFF}
	}
	n.HardforkASIC.OakTarget = c13RandTarget(r, 100, 256)
	if r.Intn(3) == 0 {
		n.HardforkASIC.OakTarget = n.InitialTarget
	}
	n.HardforkASIC.OakTime = time.Duration(1+r.Int63n(200000)) * time.Second
	if r.Intn(5) == 0 {
		n.HardforkASIC.OakTime = time.Duration(r.Int63n(3e9))
	}
	if r.Intn(3) == 0 && n.BlockInterval >= time.Second && n.BlockInterval < 1<<42 {
		// "steady" parameters: the ASIC reset values match a chain already in equilibrium
		// (OakTime = 200 intervals, OakTarget = target/200), so that on-schedule timestamps
		// give small, unclamped adjustments
		n.HardforkASIC.OakTime = 200 * n.BlockInterval
		n.HardforkASIC.OakTarget = c13IDOf(new(big.Int).Div(c13BigID(n.InitialTarget), big.NewInt(200)))
		sh.name += "+steady"
	}
	n.HardforkASIC.NonceFactor = []uint64{1, 2, 1009, 1 << 20}[r.Intn(4)]
	switch r.Intn(4) {
	case 0:
		n.HardforkOak.GenesisTimestamp = time.Unix(1433600000, 0)
	case 1:
		n.HardforkOak.GenesisTimestamp = time.Unix(r.Int63n(1<<33), 0)
	case 2:
		n.HardforkOak.GenesisTimestamp = time.Unix(1618033988, 0)
	default:
		n.HardforkOak.GenesisTimestamp = time.Unix(r.Int63n(1<<40)-(1<<39), 0)
	}
	return n, sh
}

// c13MedianX2 returns twice the median of the newest min(11, len) timestamps,
// written from the statement: the middle element, or the mean of the two middle
// elements for an even count. (twice, to stay in integers.) gap = r-l of the
// two middle elements (0 for odd counts).
func c13MedianX2(prev []int64) (m2 *big.Int, lo, hi int64) {
	k := len(prev)
	if k > 11 {
		k = 11
	}
	ts := append([]int64(nil), prev[:k]...)
	sort.Slice(ts, func(i, j int) bool { return ts[i] < ts[j] })
	if k%2 == 1 {
		return new(big.Int).Mul(big.NewInt(ts[k/2]), big.NewInt(2)), ts[k/2], ts[k/2]
	}
	l, r := ts[k/2-1], ts[k/2]
	return new(big.Int).Add(big.NewInt(l), big.NewInt(r)), l, r
}

// c13MinAllowed is the smallest timestamp not older than the median.
func c13MinAllowed(prev []int64) int64 {
	m2, _, hi := c13MedianX2(prev)
	// ceil(m2/2)
	q, rem := new(big.Int).DivMod(m2, big.NewInt(2), new(big.Int))
	if rem.Sign() != 0 {
		q.Add(q, big.NewInt(1))
	}
	if !q.IsInt64() {
		return hi
	}
	return q.Int64()
}

var c13Kinds = []string{"regular", "constant", "min-allowed", "alternating", "far-future", "random", "fast", "slow", "decreasing", "jumpy"}

type c13TsGen struct {
	kind   string
	r      *rand.Rand
	bi     int64 // block interval in seconds (≥1)
	jumpAt int
	jumpTo int64
}

// next returns the timestamp of the header at position i (≥1) given the
// timestamps so far, newest first. Always ≥ the median rule's minimum.
func (g *c13TsGen) next(i int, prev []int64) int64 {
	minA := c13MinAllowed(prev)
	last := prev[0]
	const cap_ = int64(1) << 61
	var t int64
	switch g.kind {
	case "regular":
		t = last + g.bi
	case "constant":
		t = prev[len(prev)-1]
	case "min-allowed":
		t = minA
	case "alternating":
		if i%2 == 0 {
			t = minA
		} else {
			t = last + 2*g.bi + g.r.Int63n(3*g.bi+1)
		}
	case "far-future":
		if i == g.jumpAt {
			t = g.jumpTo
		} else if i > g.jumpAt && g.r.Intn(40) == 0 && last < cap_/4 {
			t = last * 2
		} else {
			t = last + g.bi
		}
	case "random":
		t = last - 3*g.bi + g.r.Int63n(7*g.bi+1)
	case "fast":
		t = last + 1
	case "slow":
		t = last + 3*g.bi + g.r.Int63n(g.bi+1)
	case "decreasing":
		if i < 7 {
			t = last + 100000*g.bi
		} else {
			t = last - 1 - g.r.Int63n(1000)
		}
	default: // jumpy: occasional hours-long gaps and bursts
		switch g.r.Intn(10) {
		case 0:
			t = last + 10000 + g.r.Int63n(200000)
		case 1:
			t = minA
		default:
			t = last + g.r.Int63n(2*g.bi+1)
		}
	}
	if t < minA {
		t = minA
	}
	if t > cap_ {
		t = cap_
	}
	return t
}

// ---------------------------------------------------------------- oracle

type c13Step struct {
	n      *consensus.Network
	s      consensus.State
	bh     types.BlockHeader
	target time.Time
}

func (st c13Step) line() string {
	return fmt.Sprintf("pow-apply %s %s %s %d", c13NetTokens(st.n), c13StateTokens(st.s), c13HeaderTokens(st.bh), st.target.Unix())
}

func (st c13Step) replay() map[string]any {
	return map[string]any{"kind": "apply", "net": c13NetTokens(st.n), "state": c13StateTokens(st.s),
		"parent": c13BigID(st.bh.ParentID).String(), "timestamp": st.bh.Timestamp.Unix(), "nonce": st.bh.Nonce,
		"commitment": fmt.Sprintf("%x", st.bh.Commitment[:]), "target": st.target.Unix()}
}

func c13ChildHeight(s consensus.State) uint64 { return s.Index.Height + 1 }

// c13Margin is the explicit "work actually performed is far from 2^256" side
// condition of c13_apply_header_total (Margin in Props/C13.lean).
func c13Margin(s consensus.State) bool {
	ch := c13ChildHeight(s)
	two32 := new(big.Int).Lsh(big.NewInt(1), 32)
	two200 := new(big.Int).Lsh(big.NewInt(1), 200)
	two255 := new(big.Int).Lsh(big.NewInt(1), 255)
	if ch < s.Network.HardforkV2.AllowHeight {
		return c13BigID(s.Depth).Cmp(two32) >= 0 && c13BigID(s.ChildTarget).Cmp(two32) >= 0 && c13BigID(s.OakTarget).Cmp(two32) >= 0
	}
	return c13BigW(s.TotalWork).Cmp(two255) < 0 && c13BigW(s.Difficulty).Cmp(two200) < 0 && c13BigW(s.OakWork).Cmp(two200) < 0 &&
		c13BigW(s.Difficulty).Sign() > 0
}

func c13Era(s consensus.State) string {
	ch := c13ChildHeight(s)
	n := s.Network
	switch {
	case ch >= n.HardforkV2.FinalCutHeight:
		return "finalcut"
	case ch >= n.HardforkV2.AllowHeight:
		return "v2"
	case ch <= n.HardforkOak.Height:
		return "preoak"
	case ch == n.HardforkASIC.Height:
		return "asic-reset"
	default:
		return "oak"
	}
}

// c13Cap255: targets are 256-bit numbers; the code's conversion (intToTarget) rounds
// every value of 2^255 or more up to 2^256-1. That is a target whose required work is
// 1 or 2 hashes - below the resolution of a 0.4% clamp - so the oracle allows it and
// counts how often the allowance was needed.
func c13Cap255(res *fw.Result, hi *big.Int) *big.Int {
	if hi.BitLen() >= 256 {
		res.Count("clamp-upper-bound-at-2^255-cap")
		return c13MaxT
	}
	return hi
}

// c13CapNeeded counts the steps on which the new target exceeds the uncapped bound,
// i.e. where the 2^255 rounding of intToTarget is what made the step pass.
func c13CapNeeded(res *fw.Result, T1, uncapped *big.Int) {
	if T1.Cmp(uncapped) > 0 && T1.Cmp(c13MaxT) == 0 {
		res.Count("clamp-exceeded-only-by-2^255-rounding")
	}
}

// c13LimbCross counts the steps on which a 256-bit quantity crosses a multiple of 2^64
// (a carry between the limbs of Work).
func c13LimbCross(res *fw.Result, what string, before, after *big.Int) {
	for _, k := range []uint{64, 128, 192} {
		if new(big.Int).Rsh(before, k).Cmp(new(big.Int).Rsh(after, k)) != 0 {
			res.Count(fmt.Sprintf("limb-carry:%s:2^%d", what, k))
		}
	}
}

func c13FloorDiv(a *big.Int, num, den int64) *big.Int {
	x := new(big.Int).Mul(a, big.NewInt(num))
	return x.Div(x, big.NewInt(den))
}

// c13CheckStep runs the real ApplyHeader on one step and applies the statement's
// oracle. Returns the canonical output line and the new state.
func c13CheckStep(c *fw.Ctx, st c13Step, isGenesis bool) (string, consensus.State, bool) {
	res := c.Res
	var next consensus.State
	panicked, msg := fw.Recover(func() { next = consensus.ApplyHeader(st.s, st.bh, st.target) })
	era := c13Era(st.s)
	if isGenesis {
		era = "genesis"
	}
	res.Count("era:" + era)
	margin := c13Margin(st.s)
	if !margin {
		res.Count("outside-margin")
	}
	if panicked {
		if margin {
			res.Violate(fw.Violation{Key: "c13-panic:ApplyHeader", What: "ApplyHeader panicked (" + msg + ") on a header extending the tip, well-formed network, work far from 2^256",
				Replay: st.replay(), Expected: "no panic", Observed: "panic: " + msg})
		}
		return "panic", next, false
	}
	c13Oracle(c, st, next, isGenesis, era)
	return "ok " + c13StateTokens(next), next, true
}

// c13Oracle is the statement-level oracle for one applied header (st.s --st.bh--> next):
// never zero, the clamp of the era, cumulative work monotone / strictly increasing / EXACT
// against math/big under v2 rules (and within rounding of the harmonic target arithmetic
// before), the decayed work sum exact, the floored-inverse relation.
func c13Oracle(c *fw.Ctx, st c13Step, next consensus.State, isGenesis bool, era string) {
	res := c.Res
	viol := func(key, what, exp, obs string) {
		res.Violate(fw.Violation{Key: key, What: what, Replay: st.replay(), Expected: exp, Observed: obs})
	}
	T, T1 := c13BigID(st.s.ChildTarget), c13BigID(next.ChildTarget)
	D, D1 := c13BigW(st.s.Difficulty), c13BigW(next.Difficulty)
	ch := c13ChildHeight(st.s)
	n := st.n
	// --- never zero: the next block's PoW target and the recorded difficulty
	var pt types.BlockID
	if p, _ := fw.Recover(func() { pt = next.PoWTarget() }); p || c13BigID(pt).Sign() == 0 || D1.Sign() == 0 {
		viol("c13-zero-target", "required work / PoW target became zero (or PoWTarget panicked)", "non-zero", fmt.Sprintf("target=%v difficulty=%v", c13BigID(pt), D1))
	}
	if !isGenesis {
		// --- clamp of the era
		switch era {
		case "preoak":
			if ch%500 != 0 {
				if T1.Cmp(T) != 0 {
					viol("c13-clamp:preoak", "target changed outside a 500-block boundary before Oak", T.String(), T1.String())
				}
			} else {
				lo := c13FloorDiv(T, 10, 25)
				hi := c13Cap255(res, c13FloorDiv(T, 25, 10))
				c13CapNeeded(res, T1, c13FloorDiv(T, 25, 10))
				if T1.Cmp(lo) < 0 || T1.Cmp(hi) > 0 {
					viol("c13-clamp:preoak", "pre-Oak retarget outside [0.4, 2.5]", lo.String()+" .. "+hi.String(), T1.String())
				}
				if T1.Cmp(T) != 0 {
					res.Count("preoak-retarget-changed")
				}
			}
		case "oak":
			lo := c13FloorDiv(T, 1000, 1004)
			hi := c13Cap255(res, c13FloorDiv(T, 1004, 1000))
			c13CapNeeded(res, T1, c13FloorDiv(T, 1004, 1000))
			if T1.Cmp(lo) < 0 || T1.Cmp(hi) > 0 {
				viol("c13-clamp:oak", "Oak retarget changed the target by more than 0.4%", lo.String()+" .. "+hi.String(), T1.String())
			}
			if T1.Cmp(lo) == 0 || T1.Cmp(hi) == 0 {
				res.Count("oak-clamp-hit")
			} else if T1.Cmp(T) != 0 {
				res.Count("oak-interior-change")
			}
		case "asic-reset":
			// the one scheduled reset: no clamp
		case "v2":
			m := new(big.Int).Div(D, big.NewInt(250))
			lo, hi := new(big.Int).Sub(D, m), new(big.Int).Add(D, m)
			if D1.Cmp(lo) < 0 || D1.Cmp(hi) > 0 {
				viol("c13-clamp:v2", "v2 retarget changed the difficulty by more than 0.4%", lo.String()+" .. "+hi.String(), D1.String())
			}
			if D1.Cmp(lo) == 0 || D1.Cmp(hi) == 0 {
				res.Count("v2-clamp-hit")
			} else if D1.Cmp(D) != 0 {
				res.Count("v2-interior-change")
			}
		case "finalcut":
			m := new(big.Int).Div(D, big.NewInt(250))
			if m.Sign() == 0 {
				m.SetInt64(1)
			}
			lo, hi := new(big.Int).Sub(D, m), new(big.Int).Add(D, m)
			if D1.Cmp(lo) < 0 || D1.Cmp(hi) > 0 {
				viol("c13-clamp:finalcut", "final-cut retarget changed the difficulty by more than max(0.4%,1)", lo.String()+" .. "+hi.String(), D1.String())
			}
			if D1.Cmp(lo) == 0 || D1.Cmp(hi) == 0 {
				res.Count("finalcut-clamp-hit")
			} else if D1.Cmp(D) != 0 {
				res.Count("finalcut-interior-change")
			}
		}
		// --- cumulative work
		tw, tw1 := c13BigW(st.s.TotalWork), c13BigW(next.TotalWork)
		if tw1.Cmp(tw) < 0 {
			viol("c13-totalwork-decreases", "cumulative work decreased", "≥ "+tw.String(), tw1.String())
		}
		if ch >= n.HardforkV2.AllowHeight && tw1.Cmp(tw) <= 0 {
			viol("c13-totalwork-decreases", "cumulative work did not strictly increase under v2 rules", "> "+tw.String(), tw1.String())
		}
		if ch >= n.HardforkV2.AllowHeight {
			// exact: TotalWork' = TotalWork + work(block) = TotalWork + Difficulty
			if want := new(big.Int).Add(tw, D); tw1.Cmp(want) != 0 {
				viol("c13-totalwork-inexact", "cumulative work is not the previous cumulative work plus the block's difficulty", want.String(), tw1.String())
			}
			// the decayed sum: OakWork' = OakWork - floor(OakWork/200) + Difficulty
			ow := c13BigW(st.s.OakWork)
			want := new(big.Int).Add(new(big.Int).Sub(ow, new(big.Int).Div(ow, big.NewInt(200))), D)
			if ow1 := c13BigW(next.OakWork); ow1.Cmp(want) != 0 {
				viol("c13-oakwork-inexact", "decayed work sum is not OakWork - OakWork/200 + Difficulty", want.String(), ow1.String())
			}
			c13LimbCross(res, "totalwork", tw, tw1)
			c13LimbCross(res, "oakwork", ow, want)
		} else if T.Sign() != 0 {
			// legacy eras keep 1/work: TotalWork' = floor(maxT / Depth'), Depth' = floor(Depth·T/(Depth+T));
			// exact up to the rounding of those floors: |TotalWork' - (TotalWork + floor(maxT/T))| ≤ 4·(TotalWork'^2/maxT + 1)
			want := new(big.Int).Add(tw, new(big.Int).Div(c13MaxT, T))
			tol := new(big.Int).Div(new(big.Int).Mul(tw1, tw1), c13MaxT)
			tol.Add(tol, big.NewInt(1)).Mul(tol, big.NewInt(4))
			if diff := new(big.Int).Abs(new(big.Int).Sub(tw1, want)); diff.Cmp(tol) > 0 {
				viol("c13-totalwork-inexact", "legacy cumulative work differs from previous + block work by more than the rounding of the target arithmetic", want.String()+" ± "+tol.String(), tw1.String())
			}
			c13LimbCross(res, "totalwork-legacy", tw, tw1)
		}
		// --- inverse relation, in the direction of the era that produced the pair
		if ch < n.HardforkV2.AllowHeight {
			if T1.Sign() == 0 || D1.Cmp(new(big.Int).Div(c13MaxT, T1)) != 0 {
				viol("c13-inverse:pre-v2", "difficulty is not the floored inverse of the target", "floor((2^256-1)/target)", D1.String())
			}
		} else {
			want := new(big.Int).Div(c13MaxT, D1)
			if c13BigID(pt).Cmp(want) != 0 {
				viol("c13-inverse:v2", "PoW target is not the floored inverse of the difficulty", want.String(), c13BigID(pt).String())
			}
			if next.Index.Height < n.HardforkV2.FinalCutHeight && T1.Cmp(want) != 0 {
				viol("c13-inverse:v2", "ChildTarget is not the floored inverse of the difficulty", want.String(), T1.String())
			}
		}
	}
}

// ---------------------------------------------------------------- (a) header chains

type c13Chain struct {
	n      *consensus.Network
	states []consensus.State // states[i] = state whose child is header i
	tss    []int64           // timestamps of applied headers (oldest first)
}

func c13RunChain(c *fw.Ctx, n *consensus.Network, shape c13NetShape, kind string, length int, ops, outs *[]string) c13Chain {
	r := c.Rng
	res := c.Res
	ch := c13Chain{n: n}
	s := n.GenesisState()
	bi := int64(n.BlockInterval / time.Second)
	if bi < 1 {
		bi = 1
	}
	gen := &c13TsGen{kind: kind, r: r, bi: bi, jumpAt: 2 + r.Intn(length), jumpTo: int64(1) << uint(34+r.Intn(28))}
	gts := n.HardforkOak.GenesisTimestamp.Unix()
	if r.Intn(4) == 0 {
		gts += r.Int63n(100000) - 50000
	}
	var prev []int64 // newest first
	zeroTarget := r.Intn(4) == 0
	for i := 0; i < length; i++ {
		var bh types.BlockHeader
		var ts int64
		if i == 0 {
			ts = gts
		} else {
			ts = gen.next(i, prev)
			bh.ParentID = s.Index.ID
		}
		bh.Timestamp = time.Unix(ts, 0)
		nf := s.NonceFactor()
		bh.Nonce = nf * uint64(r.Intn(1000))
		r.Read(bh.Commitment[:])
		// ancestor timestamp: the block AncestorDepth (1000) below, or genesis
		target := time.Time{}
		if i > 0 && !zeroTarget {
			k := len(ch.tss) - 1000
			if k < 0 {
				k = 0
			}
			target = time.Unix(ch.tss[k], 0)
		}
		st := c13Step{n: n, s: s, bh: bh, target: target}
		// the generated header must pass the statement's conditions that do not involve the hash
		if i > 0 {
			if err := consensus.ValidateHeader(c13EasyTarget(s), bh); err != nil {
				res.Violate(fw.Violation{Key: "c13-validate-header:generated", What: "a header built to satisfy parent/median/nonce was rejected: " + err.Error(),
					Replay: st.replay(), Expected: "accept", Observed: err.Error()})
			}
		}
		out, next, ok := c13CheckStep(c, st, i == 0)
		*ops = append(*ops, st.line())
		*outs = append(*outs, out)
		res.Eval(st.line(), i > 0)
		ch.states = append(ch.states, s)
		if !ok {
			break
		}
		s = next
		ch.tss = append(ch.tss, ts)
		prev = append([]int64{ts}, prev...)
		if len(prev) > 11 {
			prev = prev[:11]
		}
	}
	ch.states = append(ch.states, s)
	return ch
}

// c13EasyTarget returns s with the PoW target opened up completely, so that
// ValidateHeader's first three conditions can be exercised with arbitrary IDs.
func c13EasyTarget(s consensus.State) consensus.State {
	s.ChildTarget = c13IDOf(c13MaxT)
	s.Difficulty = c13WorkOf(big.NewInt(1))
	return s
}

// ---------------------------------------------------------------- (b) ValidateHeader

func c13ValidateCases(c *fw.Ctx, chn c13Chain, count int, ops, outs *[]string) {
	r := c.Rng
	res := c.Res
	if len(chn.states) < 2 {
		return
	}
	// corner: the genesis STATE has no timestamps; ValidateHeader on it with the zero parent ID
	// indexes ts[-1]. Not an acceptance, so no statement violation; model and code must agree.
	{
		g := chn.states[0]
		bh := types.BlockHeader{Timestamp: time.Unix(r.Int63n(1<<32), 0)}
		var err error
		p, _ := fw.Recover(func() { err = consensus.ValidateHeader(g, bh) })
		got := "accept"
		if p {
			got = "panic"
			res.Count("validate:genesis-state-panic")
		} else if err != nil {
			got = "reject ?"
		}
		line := fmt.Sprintf("pow-validate %s %s %s", c13NetTokens(g.Network), c13StateTokens(g), c13HeaderTokens(bh))
		res.Eval(line, false)
		*ops = append(*ops, line)
		*outs = append(*outs, got)
	}
	// SufficientlyHeavierThan on states of this chain (same chain at different heights)
	for k := 0; k < 8; k++ {
		a, b := chn.states[1+r.Intn(len(chn.states)-1)], chn.states[1+r.Intn(len(chn.states)-1)]
		var ab, ba bool
		p1, _ := fw.Recover(func() { ab = a.SufficientlyHeavierThan(b) })
		p2, _ := fw.Recover(func() { ba = b.SufficientlyHeavierThan(a) })
		if !p1 && !p2 && ab && ba {
			res.Violate(fw.Violation{Key: "c13-heavier-symmetric", What: "two states of one chain are each sufficiently heavier than the other",
				Replay: map[string]any{"kind": "heavier", "s": c13StateTokens(a), "t": c13StateTokens(b)}, Expected: "asymmetric", Observed: "both true"})
		}
		res.Count("heavier:chain-pairs")
		line := fmt.Sprintf("pow-heavier %s %s", c13StateTokens(a), c13StateTokens(b))
		out := "panic"
		if !p1 {
			out = "ok 0"
			if ab {
				out = "ok 1"
			}
		}
		res.Eval(line, true)
		*ops = append(*ops, line)
		*outs = append(*outs, out)
	}
	for k := 0; k < count; k++ {
		idx := 1 + r.Intn(len(chn.states)-1)
		if r.Intn(3) == 0 && len(chn.states) > 12 { // early states: even counts of timestamps
			idx = 1 + r.Intn(11)
		}
		s := chn.states[idx]
		var prev []int64
		nts := consensus.VerifNumTimestamps(s)
		if nts == 0 {
			continue // a chain that broke on its genesis header leaves only the genesis state
		}
		for i := 0; i < nts; i++ {
			prev = append(prev, s.PrevTimestamps[i].Unix())
		}
		m2, mlo, mhi := c13MedianX2(prev)
		bh := types.BlockHeader{ParentID: s.Index.ID}
		r.Read(bh.Commitment[:])
		// timestamp around the median
		minA := c13MinAllowed(prev)
		switch r.Intn(6) {
		case 0:
			bh.Timestamp = time.Unix(minA, 0)
		case 1:
			bh.Timestamp = time.Unix(minA-1, 0)
		case 2:
			bh.Timestamp = time.Unix(minA+1, 0)
		case 3:
			bh.Timestamp = time.Unix(mlo+r.Int63n(mhi-mlo+1), 0)
		case 4:
			bh.Timestamp = time.Unix(minA-1-r.Int63n(100000), 0)
		default:
			bh.Timestamp = time.Unix(minA+r.Int63n(100000), 0)
		}
		nf := s.NonceFactor()
		bh.Nonce = nf * uint64(r.Intn(1<<20))
		if r.Intn(3) == 0 {
			bh.Nonce += uint64(r.Intn(int(min(nf, 1<<30))))
		}
		if r.Intn(5) == 0 {
			r.Read(bh.ParentID[:])
		}
		if r.Intn(12) == 0 {
			bh.ParentID = types.BlockID{}
		}
		// place the target around the header's ID
		id := c13BigID(bh.ID())
		final_ := c13ChildHeight(s) >= s.Network.HardforkV2.FinalCutHeight
		delta := int64(r.Intn(3) - 1)
		mode := r.Intn(4)
		if !final_ {
			switch mode {
			case 0:
				s.ChildTarget = c13IDOf(new(big.Int).Add(id, big.NewInt(delta)))
			case 1:
				s.ChildTarget = c13IDOf(c13MaxT)
			case 2: // keep the chain's target
			default:
				s.ChildTarget = c13RandTarget(r, 240, 256)
			}
		} else {
			switch mode {
			case 0: // difficulty whose floored inverse is just around the id
				d := new(big.Int).Div(c13MaxT, id)
				d.Add(d, big.NewInt(delta))
				if d.Sign() <= 0 {
					d.SetInt64(1)
				}
				s.Difficulty = c13WorkOf(d)
			case 1:
				s.Difficulty = c13WorkOf(big.NewInt(1))
			case 2:
			default:
				s.Difficulty = c13WorkOf(big.NewInt(1 + int64(r.Intn(4))))
			}
		}
		// --- statement oracle
		var want string
		tsX2 := new(big.Int).Mul(big.NewInt(bh.Timestamp.Unix()), big.NewInt(2))
		var target *big.Int
		if !final_ {
			target = c13BigID(s.ChildTarget)
		} else {
			target = new(big.Int).Div(c13MaxT, c13BigW(s.Difficulty))
		}
		factor := uint64(1)
		if c13ChildHeight(s) >= s.Network.HardforkASIC.Height {
			factor = s.Network.HardforkASIC.NonceFactor
		}
		ambiguous := false
		switch {
		case bh.ParentID != s.Index.ID:
			want = "reject 1"
		case tsX2.Cmp(m2) < 0:
			want = "reject 2"
			// time.Duration saturates at ~292 years: with an even number of timestamps whose
			// middle pair is further apart than that, "the mean of the two" is not computable
			// in Duration arithmetic; the statement (median of ELEVEN) does not define this case
			if mhi-mlo > 9223372036 && bh.Timestamp.Unix() >= mlo {
				ambiguous = true
			}
		case bh.Nonce%factor != 0:
			want = "reject 3"
		case id.Cmp(target) > 0:
			want = "reject 4"
		default:
			want = "accept"
		}
		var err error
		panicked, msg := fw.Recover(func() { err = consensus.ValidateHeader(s, bh) })
		got := "accept"
		if panicked {
			got = "panic"
		} else if err != nil {
			switch {
			case strings.Contains(err.Error(), "parent"):
				got = "reject 1"
			case strings.Contains(err.Error(), "timestamp"):
				got = "reject 2"
			case strings.Contains(err.Error(), "nonce"):
				got = "reject 3"
			case strings.Contains(err.Error(), "work"):
				got = "reject 4"
			default:
				got = "reject ?"
			}
		}
		res.Count("validate:" + want)
		line := fmt.Sprintf("pow-validate %s %s %s", c13NetTokens(s.Network), c13StateTokens(s), c13HeaderTokens(bh))
		res.Eval(line, true)
		if ambiguous {
			res.Count("validate:saturated-median")
		} else if got != want {
			cond := map[string]string{"reject 1": "parent", "reject 2": "median-time", "reject 3": "nonce", "reject 4": "target", "accept": "accept"}[want]
			if panicked {
				cond = "panic"
			}
			res.Violate(fw.Violation{Key: "c13-validate-header:" + cond, What: "ValidateHeader disagrees with the four acceptance conditions (" + msg + ")",
				Replay:   map[string]any{"kind": "validate", "line": line, "commitment": fmt.Sprintf("%x", bh.Commitment[:])},
				Expected: want, Observed: got})
		}
		*ops = append(*ops, line)
		*outs = append(*outs, got)
	}
}

// ---------------------------------------------------------------- (c) real blocks

func c13RealBlocks(c *fw.Ctx, chains int) {
	r := c.Rng
	res := c.Res
	for k := 0; k < chains; k++ {
		n, sh := c13GenNetwork(r, []int{0, 0, 2, 3}[r.Intn(4)])
		// trivial or very cheap proof of work
		n.InitialTarget = []types.BlockID{{0xFF}, {0x10}, {0x03}, {0x00, 0xC0}}[r.Intn(4)]
		n.HardforkASIC.OakTarget = n.InitialTarget
		n.HardforkASIC.NonceFactor = []uint64{1, 2, 1009}[r.Intn(3)]
		if n.BlockInterval < 10*time.Millisecond { // Foundation subsidy arithmetic (not PoW) needs a sane interval
			n.BlockInterval = 10 * time.Millisecond
		}
		// keep the ASIC reset from making the blocks expensive to mine
		n.HardforkASIC.OakTime = n.BlockInterval*time.Duration(1+r.Intn(50)) + time.Second
		bi := int64(n.BlockInterval / time.Second)
		if bi < 1 {
			bi = 1
		}
		gen := &c13TsGen{kind: c13Kinds[r.Intn(len(c13Kinds))], r: r, bi: bi, jumpAt: 5 + r.Intn(40), jumpTo: int64(1) << uint(34+r.Intn(20))}
		s := n.GenesisState()
		length := int(sh.final_) + 10 + r.Intn(20)
		if length > 160 {
			length = 160
		}
		var prev []int64
		for i := 0; i < length; i++ {
			ts := n.HardforkOak.GenesisTimestamp.Unix()
			if i > 0 {
				ts = gen.next(i, prev)
			}
			ch := c13ChildHeight(s)
			b := types.Block{Timestamp: time.Unix(ts, 0)}
			if i > 0 {
				b.ParentID = s.Index.ID
				b.MinerPayouts = []types.SiacoinOutput{{Address: types.VoidAddress, Value: s.BlockReward()}}
				if ch >= n.HardforkV2.RequireHeight || (ch >= n.HardforkV2.AllowHeight && r.Intn(2) == 0) {
					b.V2 = &types.V2BlockData{Height: ch, Commitment: s.Commitment(types.VoidAddress, nil, nil)}
				}
				// mine
				nf := s.NonceFactor()
				pt := s.PoWTarget()
				tries := 0
				for b.ID().CmpWork(pt) < 0 && tries < 1<<22 {
					b.Nonce += nf
					tries++
				}
			}
			bs := consensus.V1BlockSupplement{Transactions: make([]consensus.V1TransactionSupplement, len(b.Transactions))}
			valid := true
			if i > 0 {
				var err error
				if p, _ := fw.Recover(func() { err = consensus.ValidateBlock(s, b, bs) }); p || err != nil {
					valid = false
					res.Count("realblock:invalid")
					if len(res.Notes) < 5 {
						res.Note("real block %d of %s chain not valid: %v", i, sh.name, err)
					}
				}
			}
			var viaBlock, viaHeader consensus.State
			target := time.Time{}
			p1, m1 := fw.Recover(func() { viaBlock, _ = consensus.ApplyBlock(s, b, bs, target) })
			p2, m2 := fw.Recover(func() { viaHeader = consensus.ApplyHeader(s, b.Header(), target) })
			res.Eval(fmt.Sprintf("realblock %s %d %d", c13NetTokens(n), i, ts), valid)
			res.Count("realblock:" + c13Era(s))
			if p1 || p2 {
				if c13Margin(s) {
					res.Violate(fw.Violation{Key: "c13-panic:ApplyBlock", What: "applying a valid mined block panicked: " + m1 + m2,
						Replay: map[string]any{"kind": "realblock", "net": c13NetTokens(n), "state": c13StateTokens(s), "timestamp": ts}, Expected: "no panic", Observed: m1 + "|" + m2})
				}
				break
			}
			same := c13StateTokens(viaBlock) == c13StateTokens(viaHeader)
			// ApplyHeader must leave every non-PoW field alone
			untouched := viaHeader.SiafundTaxRevenue == s.SiafundTaxRevenue && viaHeader.Attestations == s.Attestations &&
				viaHeader.FoundationSubsidyAddress == s.FoundationSubsidyAddress && viaHeader.FoundationManagementAddress == s.FoundationManagementAddress &&
				viaHeader.Elements == s.Elements && viaHeader.Network == s.Network
			if !same || !untouched {
				res.Violate(fw.Violation{Key: "c13-header-vs-block", What: "header-only application and full-block application give different proof-of-work state (or ApplyHeader touched a non-PoW field)",
					Replay:   map[string]any{"kind": "realblock", "net": c13NetTokens(n), "state": c13StateTokens(s), "timestamp": ts, "nonce": b.Nonce},
					Expected: c13StateTokens(viaBlock), Observed: c13StateTokens(viaHeader)})
			}
			s = viaBlock
			prev = append([]int64{ts}, prev...)
			if len(prev) > 11 {
				prev = prev[:11]
			}
		}
	}
}

// ---------------------------------------------------------------- (d) individual functions

func c13RandWork(r *rand.Rand, maxBits int) *big.Int {
	k := r.Intn(maxBits + 1)
	if k == 0 {
		return big.NewInt(0)
	}
	b := new(big.Int).Rand(r, new(big.Int).Lsh(big.NewInt(1), uint(k)))
	switch r.Intn(6) {
	case 0:
		b.Lsh(big.NewInt(1), uint(k-1))
	case 1:
		b.Sub(new(big.Int).Lsh(big.NewInt(1), uint(k)), big.NewInt(1))
	case 2: // zero low limbs
		b.Rsh(b, 64).Lsh(b, 64)
	}
	return b
}

func c13WorkOps(c *fw.Ctx, count int, ops, outs *[]string) {
	r := c.Rng
	res := c.Res
	names := []string{"add", "sub", "mul64", "div64", "min", "max"}
	for i := 0; i < count; i++ {
		op := names[r.Intn(len(names))]
		a := c13RandWork(r, 256)
		var b *big.Int
		if op == "mul64" || op == "div64" {
			b = c13RandWork(r, 64)
			if r.Intn(10) == 0 {
				b = big.NewInt(int64(r.Intn(3)))
			}
		} else {
			b = c13RandWork(r, 256)
			switch r.Intn(6) {
			case 0:
				b = new(big.Int).Set(a)
			case 1:
				b = new(big.Int).Sub(c13Two256, a) // a+b = 2^256 exactly
				b.Mod(b, c13Two256)
			case 2:
				b = new(big.Int).Sub(c13MaxT, a) // a+b = 2^256-1
			case 3:
				b = new(big.Int).Add(a, big.NewInt(1))
				b.Mod(b, c13Two256)
			}
		}
		wa, wb := c13WorkOf(a), c13WorkOf(b)
		var got consensus.Work
		panicked, _ := fw.Recover(func() {
			switch op {
			case "add":
				got = consensus.VerifWorkAdd(wa, wb)
			case "sub":
				got = consensus.VerifWorkSub(wa, wb)
			case "mul64":
				got = consensus.VerifWorkMul64(wa, b.Uint64())
			case "div64":
				got = consensus.VerifWorkDiv64(wa, b.Uint64())
			case "min":
				got = consensus.VerifWorkMin(wa, wb)
			case "max":
				got = consensus.VerifWorkMax(wa, wb)
			}
		})
		// statement: exact 256-bit arithmetic, failing exactly on overflow/underflow/÷0
		var exact *big.Int
		switch op {
		case "add":
			exact = new(big.Int).Add(a, b)
		case "sub":
			exact = new(big.Int).Sub(a, b)
		case "mul64":
			exact = new(big.Int).Mul(a, b)
		case "div64":
			if b.Sign() != 0 {
				exact = new(big.Int).Div(a, b)
			}
		case "min":
			exact = a
			if b.Cmp(a) < 0 {
				exact = b
			}
		case "max":
			exact = a
			if b.Cmp(a) > 0 {
				exact = b
			}
		}
		want := "panic"
		if exact != nil && exact.Sign() >= 0 && exact.Cmp(c13Two256) < 0 {
			want = "ok " + exact.String()
		}
		out := "panic"
		if !panicked {
			out = "ok " + c13BigW(got).String()
		}
		line := fmt.Sprintf("pow-work %s %s %s", op, a, b)
		res.Eval(line, a.Sign() != 0 && b.Sign() != 0)
		res.Count("work:" + op)
		if out != want {
			res.Violate(fw.Violation{Key: "c13-work-arith:" + op, What: "Work." + op + " is not exact 256-bit arithmetic",
				Replay: map[string]any{"kind": "work", "line": line}, Expected: want, Observed: out})
		}
		*ops = append(*ops, line)
		*outs = append(*outs, out)
	}
}

func c13TgtOps(c *fw.Ctx, count int, ops, outs *[]string) {
	r := c.Rng
	res := c.Res
	show := func(f func() types.BlockID) string {
		var v types.BlockID
		if p, _ := fw.Recover(func() { v = f() }); p {
			return "panic"
		}
		return "ok " + c13BigID(v).String()
	}
	for i := 0; i < count; i++ {
		a, b := c13RandWork(r, 256), c13RandWork(r, 256)
		var line, out string
		switch r.Intn(4) {
		case 0:
			line = fmt.Sprintf("pow-tgt inv %s", a)
			out = show(func() types.BlockID { return types.BlockID(consensus.VerifInvTarget(c13IDOf(a))) })
		case 1:
			line = fmt.Sprintf("pow-tgt add %s %s", a, b)
			out = show(func() types.BlockID { return consensus.VerifAddTarget(c13IDOf(a), c13IDOf(b)) })
		case 2:
			nn := []int64{1000, 1004, 995, 10, 25, 0, -1, -25, r.Int63n(1 << 40), -r.Int63n(1 << 40), r.Int63()}[r.Intn(11)]
			dd := []int64{1000, 1004, 995, 10, 25, 0, -1, -10, 1 + r.Int63n(1<<40), -1 - r.Int63n(1<<40)}[r.Intn(10)]
			line = fmt.Sprintf("pow-tgt mulfrac %s %d %d", a, nn, dd)
			out = show(func() types.BlockID { return consensus.VerifMulTargetFrac(c13IDOf(a), nn, dd) })
		default:
			x := c13RandWork(r, 300)
			if r.Intn(3) == 0 {
				x.Neg(x)
			}
			line = fmt.Sprintf("pow-tgt int %s", x)
			out = show(func() types.BlockID { return consensus.VerifIntToTarget(new(big.Int).Set(x)) })
		}
		res.Eval(line, true)
		res.Count("tgt-op")
		*ops = append(*ops, line)
		*outs = append(*outs, out)
	}
}

// c13Perturb returns a state of the chain with some fields replaced by arbitrary values.
func c13Perturb(r *rand.Rand, s consensus.State) consensus.State {
	for k := 0; k < 1+r.Intn(3); k++ {
		switch r.Intn(9) {
		case 0:
			s.OakTime = time.Duration(r.Int63n(1 << uint(1+r.Intn(62))))
			if r.Intn(4) == 0 {
				s.OakTime = -s.OakTime
			}
		case 1:
			s.OakTime = []time.Duration{0, 1, time.Second - 1, time.Second, time.Second + 1, 2 * time.Second, -1, -time.Second}[r.Intn(8)]
		case 2:
			s.OakWork = c13WorkOf(c13RandWork(r, 256))
		case 3:
			s.Difficulty = c13WorkOf(c13RandWork(r, 256))
		case 4:
			s.TotalWork = c13WorkOf(c13RandWork(r, 256))
		case 5:
			s.ChildTarget = c13IDOf(c13RandWork(r, 256))
		case 6:
			s.OakTarget = c13IDOf(c13RandWork(r, 256))
		case 7:
			s.Depth = c13IDOf(c13RandWork(r, 256))
		default:
			s.PrevTimestamps[0] = time.Unix(r.Int63n(1<<uint(1+r.Intn(60)))-r.Int63n(1<<uint(1+r.Intn(40))), 0)
		}
	}
	return s
}

func c13FnOps(c *fw.Ctx, chn c13Chain, count int, ops, outs *[]string) {
	r := c.Rng
	res := c.Res
	if len(chn.states) < 2 {
		return
	}
	fns := []string{"target", "v2", "finalcut", "difficulty", "totalwork", "oaktime", "oaktarget", "oakwork", "median"}
	for k := 0; k < count; k++ {
		s := chn.states[r.Intn(len(chn.states))]
		if r.Intn(3) != 0 {
			s = c13Perturb(r, s)
		}
		n := s.Network
		fn := fns[r.Intn(len(fns))]
		base := s.PrevTimestamps[0].Unix()
		bt := base + r.Int63n(100000) - 20000
		tt := base - r.Int63n(2000000)
		switch r.Intn(8) {
		case 0:
			bt = r.Int63n(1<<uint(1+r.Intn(60))) - r.Int63n(1<<uint(1+r.Intn(60)))
		case 1:
			tt = c13ZeroTimeUnix
		case 2:
			tt = bt + r.Int63n(1000)
		}
		if fn == "target" && r.Intn(2) == 0 {
			// float64 boundary ratios of the pre-Oak clamp: expected/elapsed at or next to 5/2 and 2/5,
			// on a retarget height of a network whose Oak fork is still ahead
			n2 := *n
			n2.HardforkOak.Height = 5000
			n2.HardforkOak.FixHeight = 5000
			n2.HardforkASIC.Height = 5001
			n2.HardforkV2.AllowHeight, n2.HardforkV2.RequireHeight, n2.HardforkV2.FinalCutHeight = 6000, 6000, 7000
			if r.Intn(10) != 0 && n2.BlockInterval < time.Second { // mostly inside NetworkWF
				n2.BlockInterval = time.Duration(1+r.Intn(900)) * time.Second
			}
			n = &n2
			s.Network = n
			s.Index.Height = []uint64{499, 999, 1499, 2999}[r.Intn(4)]
			if s.ChildTarget == (types.BlockID{}) {
				s.ChildTarget = c13RandTarget(r, 100, 256)
			}
			chh := c13ChildHeight(s)
			depth := int64(1000)
			if chh < 1000 {
				depth = int64(chh)
			}
			expected := int64(n.BlockInterval/time.Second) * depth
			var elapsed int64
			switch r.Intn(6) {
			case 0:
				elapsed = expected * 2 / 5
			case 1:
				elapsed = expected * 5 / 2
			case 2:
				elapsed = 0
			case 3:
				elapsed = -r.Int63n(100000)
			case 4:
				elapsed = expected*2/5 + int64(r.Intn(5)) - 2
			default:
				elapsed = expected*5/2 + int64(r.Intn(5)) - 2
			}
			tt = bt - elapsed
			res.Count("fn:target-boundary-ratio")
		}
		btT, ttT := c13Time(bt), c13Time(tt)
		var line, out string
		showW := func(w consensus.Work) string { return c13BigW(w).String() }
		showI := func(id types.BlockID) string { return c13BigID(id).String() }
		if fn == "median" {
			line = "pow-median " + c13StateTokens(s)
			var m time.Time
			if p, _ := fw.Recover(func() { m = consensus.VerifMedianTimestamp(s) }); p {
				out = "panic"
			} else {
				ns := new(big.Int).Mul(big.NewInt(m.Unix()), big.NewInt(1e9))
				ns.Add(ns, big.NewInt(int64(m.Nanosecond())))
				out = "ok " + ns.String()
			}
		} else {
			line = fmt.Sprintf("pow-adjust %s %s %s %d %d", fn, c13NetTokens(n), c13StateTokens(s), bt, tt)
			panicked, _ := fw.Recover(func() {
				switch fn {
				case "target":
					out = "ok " + showI(consensus.VerifAdjustTarget(s, btT, ttT))
				case "v2":
					out = "ok " + showW(consensus.VerifAdjustDifficultyV2(s, btT))
				case "finalcut":
					out = "ok " + showW(consensus.VerifAdjustDifficultyFinalCut(s, btT))
				case "difficulty":
					w, t := consensus.VerifAdjustDifficulty(s, btT, ttT)
					out = "ok " + showW(w) + " " + showI(t)
				case "totalwork":
					w, t := consensus.VerifUpdateTotalWork(s)
					out = "ok " + showW(w) + " " + showI(t)
				case "oaktime":
					out = fmt.Sprintf("ok %d", int64(consensus.VerifUpdateOakTime(s, btT, ttT)))
				case "oaktarget":
					out = "ok " + showI(consensus.VerifUpdateOakTarget(s))
				case "oakwork":
					w, t := consensus.VerifUpdateOakWork(s)
					out = "ok " + showW(w) + " " + showI(t)
				}
			})
			if panicked {
				out = "panic"
			}
		}
		res.Eval(line, true)
		res.Count("fn:" + fn)
		if out == "panic" {
			res.Count("fn-result:panic")
		}
		*ops = append(*ops, line)
		*outs = append(*outs, out)
	}
}

// ---------------------------------------------------------------- (e) heavier

func c13Heavier(c *fw.Ctx, count int, ops, outs *[]string) {
	r := c.Rng
	res := c.Res
	n, _ := c13GenNetwork(r, 0)
	base := n.GenesisState()
	for i := 0; i < count; i++ {
		s, t := base, base
		tw := c13RandWork(r, 250)
		d := c13RandWork(r, 250)
		s.TotalWork, s.Difficulty = c13WorkOf(tw), c13WorkOf(d)
		switch r.Intn(4) {
		case 0: // close together: within a fraction of the difficulty
			off := new(big.Int).Rand(r, new(big.Int).Add(d, big.NewInt(1)))
			tw2 := new(big.Int).Add(tw, off)
			if r.Intn(2) == 0 {
				tw2.Sub(tw, off)
				if tw2.Sign() < 0 {
					tw2.SetInt64(0)
				}
			}
			t.TotalWork, t.Difficulty = c13WorkOf(tw2), c13WorkOf(d)
		case 1:
			t.TotalWork, t.Difficulty = s.TotalWork, s.Difficulty
		case 2:
			t.TotalWork, t.Difficulty = c13WorkOf(c13RandWork(r, 250)), c13WorkOf(big.NewInt(int64(r.Intn(10))))
		default:
			t.TotalWork, t.Difficulty = c13WorkOf(c13RandWork(r, 250)), c13WorkOf(c13RandWork(r, 250))
		}
		if r.Intn(50) == 0 { // overflow corner: both sides must agree on the panic
			t.TotalWork = c13WorkOf(c13MaxT)
		}
		var st, ts bool
		p1, _ := fw.Recover(func() { st = s.SufficientlyHeavierThan(t) })
		p2, _ := fw.Recover(func() { ts = t.SufficientlyHeavierThan(s) })
		if !p1 && !p2 && st && ts {
			res.Violate(fw.Violation{Key: "c13-heavier-symmetric", What: "two states are each sufficiently heavier than the other",
				Replay: map[string]any{"kind": "heavier", "s": c13StateTokens(s), "t": c13StateTokens(t)}, Expected: "asymmetric", Observed: "both true"})
		}
		// statement: s ≻ t iff work(s) > work(t) + difficulty(t)/5
		if !p1 {
			lhs := c13BigW(s.TotalWork)
			rhs := new(big.Int).Add(c13BigW(t.TotalWork), new(big.Int).Div(c13BigW(t.Difficulty), big.NewInt(5)))
			if st != (lhs.Cmp(rhs) > 0) {
				res.Violate(fw.Violation{Key: "c13-heavier-threshold", What: "SufficientlyHeavierThan is not 'more than 20% of the current difficulty heavier'",
					Replay: map[string]any{"kind": "heavier", "s": c13StateTokens(s), "t": c13StateTokens(t)}, Expected: fmt.Sprint(lhs.Cmp(rhs) > 0), Observed: fmt.Sprint(st)})
			}
		}
		line := fmt.Sprintf("pow-heavier %s %s", c13StateTokens(s), c13StateTokens(t))
		out := "panic"
		if !p1 {
			out = "ok 0"
			if st {
				out = "ok 1"
				res.Count("heavier:true")
			}
		}
		res.Eval(line, true)
		res.Count("heavier:pairs")
		*ops = append(*ops, line)
		*outs = append(*outs, out)
	}
}

// ---------------------------------------------------------------- driver

func runC13(c *fw.Ctx) {
	res := c.Res
	res.Rule = "header chains over generated well-formed networks (era heights a few blocks apart, plus networks with pre-Oak retargets at 500/1000) × 10 timestamp kinds (regular, constant, minimal-allowed, alternating, far-future up to 2^61 s, random, fast, slow, decreasing-within-rule, jumpy); after EVERY header: Go ApplyHeader vs the Lean model on the full PoW state, and the statement oracle (era clamp, never zero, total work monotone/strict, inverse relation, no panic within the work margin). ValidateHeader on crafted headers (target placed at id-1/id/id+1) vs the four conditions; mined real blocks: ApplyBlock vs ApplyHeader; every unexported PoW function through hooks on perturbed states incl. float64 boundary ratios; SufficientlyHeavierThan on random pairs. A case is non-trivial when it is not the genesis header; distinct by full input line."
	if c.Replay != "" {
		c13Replay(c)
		return
	}
	// the real code at and beyond the hypotheses of the totality theorems (sub-check C13B)
	defer func() {
		if bnd := fw.Lookup("C13B"); bnd != nil {
			rule := c.Res.Rule
			bnd(c)
			c.Res.Rule = rule + " PLUS (C13B): " + c.Res.Rule
		}
	}()
	c13bGuard(c, "C13 main families", func() { runC13Main(c) })
}

func runC13Main(c *fw.Ctx) {
	res := c.Res
	var ops, outs []string
	r := c.Rng
	nChains := c.Budget(36, 600)
	for k := 0; k < nChains; k++ {
		shape := []int{0, 0, 0, 2, 3, 1}[k%6]
		if !c.Thorough() && shape == 1 && k >= 12 {
			shape = 0 // long pre-Oak chains are expensive: two in the quick tier
		}
		n, sh := c13GenNetwork(r, shape)
		kind := c13Kinds[(k/2+k)%len(c13Kinds)]
		if shape == 1 {
			kind = []string{"regular", "slow", "fast", "jumpy", "far-future", "min-allowed"}[r.Intn(6)]
		}
		length := int(sh.final_) + 20 + r.Intn(120)
		res.Count("net:" + sh.name)
		res.Count("kind:" + kind)
		if n.BlockInterval < time.Second {
			res.Count("net:sub-second-interval")
		}
		chn := c13RunChain(c, n, sh, kind, length, &ops, &outs)
		res.CountN("headers", len(chn.tss))
		c13ValidateCases(c, chn, c.Budget(40, 200), &ops, &outs)
		c13FnOps(c, chn, c.Budget(60, 400), &ops, &outs)
		if k == 0 {
			res.Sample(map[string]any{"network": c13NetTokens(n), "kind": kind, "headers": len(chn.tss), "final_state": c13StateTokens(chn.states[len(chn.states)-1])})
		}
	}
	c13WorkOps(c, c.Budget(4000, 200000), &ops, &outs)
	c13TgtOps(c, c.Budget(1500, 50000), &ops, &outs)
	c13Heavier(c, c.Budget(1500, 100000), &ops, &outs)
	c13RealBlocks(c, c.Budget(4, 60))
	for i := 0; i < len(ops); i += 1 + len(ops)/6 {
		res.Sample(map[string]string{"op": c13Short(ops[i]), "go": c13Short(outs[i])})
	}
	c.Compare(ops, outs)
}

func c13Short(s string) string {
	if len(s) > 400 {
		return s[:400] + "…"
	}
	return s
}

// c13Replay re-runs one stored case.
func c13Replay(c *fw.Ctx) {
	b, err := readFile(c.Replay)
	if err != nil {
		c.Res.Note("replay: %v", err)
		return
	}
	var v struct {
		Replay struct {
			Kind, Net, State, Parent, Commitment, Line, S, T string
			Timestamp, Target                                int64
			Nonce                                            uint64
		}
	}
	if json.Unmarshal(b, &v) != nil {
		c.Res.Note("replay: cannot parse %s", c.Replay)
		return
	}
	rp := v.Replay
	var ops, outs []string
	switch rp.Kind {
	case "apply":
		n, ok := c13ParseNet(strings.Fields(rp.Net))
		if !ok {
			return
		}
		s, ok := c13ParseState(n, strings.Fields(rp.State))
		if !ok {
			return
		}
		var bh types.BlockHeader
		p, _ := new(big.Int).SetString(rp.Parent, 10)
		if p != nil {
			bh.ParentID = c13IDOf(p)
		}
		bh.Timestamp = time.Unix(rp.Timestamp, 0)
		bh.Nonce = rp.Nonce
		if cb, err := hex.DecodeString(rp.Commitment); err == nil {
			copy(bh.Commitment[:], cb)
		}
		st := c13Step{n: n, s: s, bh: bh, target: c13Time(rp.Target)}
		out, _, _ := c13CheckStep(c, st, bh.ParentID == types.BlockID{})
		c.Res.Eval(st.line(), true)
		ops, outs = append(ops, st.line()), append(outs, out)
	default:
		c.Res.Note("replay kind %q is re-run through the normal seeded run (same seed reproduces it)", rp.Kind)
		c.Replay = ""
		runC13(c)
		return
	}
	c.Compare(ops, outs)
}
