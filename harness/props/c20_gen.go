package props

// C20 — reflection-driven value generator and "equal value" comparison for the JSON
// round trip of every public type.

import (
	"bytes"
	"encoding"
	"encoding/json"
	"fmt"
	"math"
	"math/bits"
	"math/rand"
	"reflect"
	"strings"
	"time"
	"unicode/utf8"

	"go.sia.tech/core/consensus"
	"go.sia.tech/core/types"
)

type c20Gen struct {
	rng *rand.Rand
	// unsupported collects kinds the generator cannot produce (interfaces it does
	// not know, funcs, channels); a type that hits one is reported, not checked.
	unsupported string
}

var (
	c20tTime        = reflect.TypeOf(time.Time{})
	c20tPolicy      = reflect.TypeOf(types.SpendPolicy{})
	c20tResolution  = reflect.TypeOf(types.V2FileContractResolution{})
	c20tV2Diff      = reflect.TypeOf(consensus.V2FileContractElementDiff{})
	c20tAccumulator = reflect.TypeOf(consensus.ElementAccumulator{})
	c20tWork        = reflect.TypeOf(consensus.Work{})
	c20tRevision    = reflect.TypeOf(types.FileContractRevision{})
	c20tSpecifier   = reflect.TypeOf(types.Specifier{})
	c20tUnlockKey   = reflect.TypeOf(types.UnlockKey{})
	c20tCurrency    = reflect.TypeOf(types.Currency{})
	c20tApplyUpd    = reflect.TypeOf(consensus.ApplyUpdate{})
	c20tRevertUpd   = reflect.TypeOf(consensus.RevertUpdate{})
	c20tDuration    = reflect.TypeOf(time.Duration(0))
)

// ---------------------------------------------------------------- leaf generators

func (g *c20Gen) u64() uint64 {
	switch g.rng.Intn(8) {
	case 0:
		return 0
	case 1:
		return math.MaxUint64
	case 2:
		return uint64(g.rng.Intn(300))
	case 3:
		return 1 << uint(g.rng.Intn(64))
	case 4:
		return (1 << uint(g.rng.Intn(64))) - 1
	}
	return g.rng.Uint64() >> uint(g.rng.Intn(64))
}

func (g *c20Gen) bytesN(n int) []byte {
	b := make([]byte, n)
	switch g.rng.Intn(6) {
	case 0: // zeros
	case 1:
		for i := range b {
			b[i] = 0xff
		}
	default:
		g.rng.Read(b)
	}
	return b
}

// years 0–9999 are what encoding/json (RFC 3339) can represent
var (
	c20MinTime = time.Date(0, 1, 1, 0, 0, 0, 0, time.UTC).Unix()
	c20MaxTime = time.Date(9999, 12, 31, 23, 59, 59, 0, time.UTC).Unix()
)

func (g *c20Gen) time() time.Time {
	var sec int64
	switch g.rng.Intn(8) {
	case 0:
		return time.Time{}
	case 1:
		sec = c20MinTime
	case 2:
		sec = c20MaxTime
	case 3:
		sec = 0
	case 4:
		sec = int64(g.rng.Intn(1 << 31))
	default:
		sec = c20MinTime + g.rng.Int63n(c20MaxTime-c20MinTime+1)
	}
	var ns int64
	if g.rng.Intn(3) == 0 {
		ns = int64(g.rng.Intn(1e9))
	}
	t := time.Unix(sec, ns)
	switch g.rng.Intn(3) {
	case 0:
		t = t.UTC()
	case 1:
		// a fixed zone; the year seen in that zone must stay within 0–9999
		z := time.FixedZone("", (g.rng.Intn(27)-12)*3600+g.rng.Intn(2)*1800)
		if y := t.In(z).Year(); y >= 0 && y <= 9999 {
			t = t.In(z)
		} else {
			t = t.UTC()
		}
	default:
		if y := t.Year(); y < 0 || y > 9999 { // local zone pushes it out of range
			t = t.UTC()
		}
	}
	return t
}

var c20Runes = []rune{'a', 'Z', '0', ' ', '"', '\\', '/', '<', '>', '&', '\'', '\n', '\t', '\r', 0, 1, 0x1f, 0x7f, 0x80, 0x85, 0xa0, 0xe9, 0x3a9,
	0x2028, 0x2029, 0xfeff, 0xfffd, 0x4e16, 0x1f600, 0x10ffff, ':', ',', '(', ')', '[', ']', '{', '}'}

// str returns a valid UTF-8 string (the only strings JSON can represent).
func (g *c20Gen) str() string {
	n := 0
	switch g.rng.Intn(4) {
	case 0:
		n = 0
	case 1:
		n = 1 + g.rng.Intn(4)
	default:
		n = g.rng.Intn(24)
	}
	var sb strings.Builder
	for i := 0; i < n; i++ {
		switch g.rng.Intn(3) {
		case 0:
			sb.WriteRune(c20Runes[g.rng.Intn(len(c20Runes))])
		case 1:
			sb.WriteByte(byte(0x20 + g.rng.Intn(0x5f)))
		default:
			r := rune(g.rng.Intn(0x110000))
			if !utf8.ValidRune(r) {
				r = 'x'
			}
			sb.WriteRune(r)
		}
	}
	return sb.String()
}

// specifier returns a 16-byte specifier, often an unusual one.
func (g *c20Gen) specifier() (s types.Specifier) {
	put := func(b []byte) {
		if len(b) > 16 {
			b = b[:16]
		}
		copy(s[:], b)
	}
	switch g.rng.Intn(14) {
	case 0:
		return types.SpecifierEd25519
	case 1:
		return types.Specifier{}
	case 2: // alphanumeric, any length
		n := g.rng.Intn(17)
		const al = "abcdefghijklmnopqrstuvwxyzABCDEFGHIJKLMNOPQRSTUVWXYZ0123456789"
		for i := 0; i < n; i++ {
			s[i] = al[g.rng.Intn(len(al))]
		}
	case 3: // ASCII punctuation, including the policy delimiters, quotes, backslash, colon, space
		n := 1 + g.rng.Intn(16)
		const pc = " !\"#$%&'()*+,-./:;<=>?@[\\]^_`{|}~ab1"
		for i := 0; i < n; i++ {
			s[i] = pc[g.rng.Intn(len(pc))]
		}
	case 4: // one delimiter in otherwise plain text
		put([]byte("ab" + string("(),[]"[g.rng.Intn(5)]) + "cd"))
	case 5: // interior zero bytes
		put([]byte{'a', 0, 'b', 0, 0, 'c'})
		s[g.rng.Intn(16)] = 0
	case 6: // control characters
		n := 1 + g.rng.Intn(16)
		for i := 0; i < n; i++ {
			s[i] = byte(g.rng.Intn(0x21))
		}
	case 7: // valid multi-byte UTF-8
		var b []byte
		for len(b) < 13 {
			b = utf8.AppendRune(b, c20Runes[g.rng.Intn(len(c20Runes))])
		}
		put(b)
		if !utf8.Valid(bytes.TrimRight(s[:], "\x00")) { // cut inside a rune: keep it, it is a legal specifier too
		}
	case 8: // invalid UTF-8
		g.rng.Read(s[:])
		s[g.rng.Intn(16)] = byte(0x80 + g.rng.Intn(0x80))
	case 9: // full 16 bytes, no zero
		for i := range s {
			s[i] = byte(1 + g.rng.Intn(255))
		}
	case 10: // leading quote / white space
		put([]byte(string(" \t\"'`"[g.rng.Intn(5)]) + "spec"))
	case 11: // trailing space and zeros
		put([]byte("spec \x00"))
	default:
		g.rng.Read(s[:])
		if g.rng.Intn(2) == 0 { // random tail of zeros
			for i := g.rng.Intn(16); i < 16; i++ {
				s[i] = 0
			}
		}
	}
	return
}

func (g *c20Gen) unlockKey() types.UnlockKey {
	uk := types.UnlockKey{Algorithm: g.specifier()}
	switch g.rng.Intn(5) {
	case 0: // nil key
	case 1:
		uk.Key = []byte{}
	case 2:
		uk.Key = g.bytesN(32)
	default:
		uk.Key = g.bytesN(g.rng.Intn(70))
	}
	return uk
}

func (g *c20Gen) unlockConditions() types.UnlockConditions {
	uc := types.UnlockConditions{Timelock: g.u64(), SignaturesRequired: g.u64()}
	switch g.rng.Intn(4) {
	case 0: // nil
	case 1:
		uc.PublicKeys = []types.UnlockKey{}
	default:
		for i, n := 0, 1+g.rng.Intn(3); i < n; i++ {
			uc.PublicKeys = append(uc.PublicKeys, g.unlockKey())
		}
	}
	return uc
}

// policy returns a random spend policy; every kind, unusual corners included.
func (g *c20Gen) policy(depth int) types.SpendPolicy {
	k := g.rng.Intn(7)
	if depth <= 0 && k == 4 {
		k = 0
	}
	switch k {
	case 0:
		return types.PolicyAbove(g.u64())
	case 1:
		// the text and JSON forms carry int64 Unix seconds
		var sec int64
		switch g.rng.Intn(5) {
		case 0:
			sec = math.MinInt64
		case 1:
			sec = math.MaxInt64
		case 2:
			sec = -int64(g.rng.Intn(1 << 30))
		default:
			sec = int64(g.u64() >> 1)
		}
		return types.PolicyAfter(time.Unix(sec, 0))
	case 2:
		return types.PolicyPublicKey(types.PublicKey(g.bytesN(32)))
	case 3:
		return types.PolicyHash(types.Hash256(g.bytesN(32)))
	case 4:
		n := uint8(g.u64())
		var of []types.SpendPolicy
		switch g.rng.Intn(4) {
		case 0: // nil
		case 1:
			of = []types.SpendPolicy{}
		default:
			for i, m := 0, 1+g.rng.Intn(3); i < m; i++ {
				of = append(of, g.policy(depth-1))
			}
		}
		return types.PolicyThreshold(n, of)
	case 5:
		return types.SpendPolicy{Type: types.PolicyTypeOpaque(types.Address(g.bytesN(32)))}
	default:
		return types.SpendPolicy{Type: types.PolicyTypeUnlockConditions(g.unlockConditions())}
	}
}

// ---------------------------------------------------------------- generic fill

func (g *c20Gen) fill(v reflect.Value, depth int) {
	t := v.Type()
	switch t {
	case c20tTime:
		v.Set(reflect.ValueOf(g.time()))
		return
	case c20tPolicy:
		v.Set(reflect.ValueOf(g.policy(2)))
		return
	case c20tSpecifier:
		v.Set(reflect.ValueOf(g.specifier()))
		return
	case c20tUnlockKey:
		v.Set(reflect.ValueOf(g.unlockKey()))
		return
	case c20tWork:
		var w consensus.Work
		w.DecodeFrom(types.NewBufDecoder(g.bytesN(32)))
		v.Set(reflect.ValueOf(w))
		return
	case c20tAccumulator:
		// only the trees of set bits are part of the value (EncodeTo and JSON agree)
		var acc consensus.ElementAccumulator
		acc.NumLeaves = g.u64()
		for i := range acc.Trees {
			if acc.NumLeaves&(1<<i) != 0 {
				copy(acc.Trees[i][:], g.bytesN(32))
			}
		}
		v.Set(reflect.ValueOf(acc))
		return
	case c20tApplyUpd, c20tRevertUpd:
		// only reachable through real chains (c20_chain.go); leave the zero value
		return
	}
	switch t.Kind() {
	case reflect.Bool:
		v.SetBool(g.rng.Intn(2) == 0)
	case reflect.Uint8, reflect.Uint16, reflect.Uint32, reflect.Uint64, reflect.Uint:
		x := g.u64()
		if g.rng.Intn(2) == 0 {
			x >>= uint(64 - t.Bits())
		}
		v.SetUint(x & (math.MaxUint64 >> uint(64-t.Bits())))
	case reflect.Int8, reflect.Int16, reflect.Int32, reflect.Int64, reflect.Int:
		x := int64(g.u64())
		v.SetInt(x >> uint(64-t.Bits()))
	case reflect.Float32, reflect.Float64:
		v.SetFloat(float64(g.rng.Intn(1000)) / 8)
	case reflect.String:
		v.SetString(g.str())
	case reflect.Array:
		if t.Elem().Kind() == reflect.Uint8 {
			reflect.Copy(v, reflect.ValueOf(g.bytesN(t.Len())))
			return
		}
		for i := 0; i < t.Len(); i++ {
			g.fill(v.Index(i), depth-1)
		}
	case reflect.Slice:
		var n int
		switch g.rng.Intn(4) {
		case 0:
			return // nil
		case 1:
			v.Set(reflect.MakeSlice(t, 0, 0))
			return
		default:
			n = 1 + g.rng.Intn(3)
		}
		if depth <= 0 {
			n = 1
		}
		if t.Elem().Kind() == reflect.Uint8 {
			v.SetBytes(g.bytesN(g.rng.Intn(40)))
			return
		}
		s := reflect.MakeSlice(t, n, n)
		for i := 0; i < n; i++ {
			g.fill(s.Index(i), depth-1)
		}
		v.Set(s)
	case reflect.Ptr:
		if g.rng.Intn(3) == 0 || depth < -6 {
			return
		}
		p := reflect.New(t.Elem())
		g.fill(p.Elem(), depth-1)
		v.Set(p)
	case reflect.Map:
		if g.rng.Intn(3) == 0 {
			return
		}
		m := reflect.MakeMap(t)
		for i, n := 0, g.rng.Intn(3); i < n; i++ {
			k := reflect.New(t.Key()).Elem()
			g.fill(k, depth-1)
			e := reflect.New(t.Elem()).Elem()
			g.fill(e, depth-1)
			m.SetMapIndex(k, e)
		}
		v.Set(m)
	case reflect.Struct:
		for i := 0; i < t.NumField(); i++ {
			f := t.Field(i)
			if !f.IsExported() {
				continue
			}
			if tag := f.Tag.Get("json"); tag == "-" {
				continue
			}
			g.fill(v.Field(i), depth-1)
		}
		switch t {
		case c20tRevision:
			// "we must treat its Payout field as invalid … set it to a sentinel value when decoding"
			v.Addr().Interface().(*types.FileContractRevision).Payout = types.NewCurrency(math.MaxUint64, math.MaxUint64)
		case c20tResolution:
			v.Addr().Interface().(*types.V2FileContractResolution).Resolution = g.resolution(depth)
		case c20tV2Diff:
			d := v.Addr().Interface().(*consensus.V2FileContractElementDiff)
			if g.rng.Intn(4) == 0 {
				d.Resolution = nil
			} else {
				d.Resolution = g.resolution(depth)
			}
		}
	case reflect.Interface:
		switch t.String() {
		case "types.V2FileContractResolutionType":
			v.Set(reflect.ValueOf(g.resolution(depth)))
		default:
			g.unsupported = "interface " + t.String()
		}
	default:
		g.unsupported = "kind " + t.Kind().String() + " (" + t.String() + ")"
	}
}

func (g *c20Gen) resolution(depth int) types.V2FileContractResolutionType {
	switch g.rng.Intn(3) {
	case 0:
		r := new(types.V2FileContractRenewal)
		g.fill(reflect.ValueOf(r).Elem(), depth-1)
		return r
	case 1:
		r := new(types.V2StorageProof)
		g.fill(reflect.ValueOf(r).Elem(), depth-1)
		return r
	}
	return new(types.V2FileContractExpiration)
}

// ---------------------------------------------------------------- "equal value"

// c20Equal compares two values of the same type as VALUES: nil and empty
// collections are the same value, times are compared as instants, unexported
// bookkeeping (StateElement.shared) and `json:"-"` fields (State.Network) are not
// part of the value. It returns the path of the first difference.
func c20Equal(a, b reflect.Value, path string) string {
	if a.Type() != b.Type() {
		return fmt.Sprintf("%s: type %v vs %v", path, a.Type(), b.Type())
	}
	t := a.Type()
	if t == c20tTime && a.CanInterface() {
		x, y := a.Interface().(time.Time), b.Interface().(time.Time)
		if !x.Equal(y) {
			return fmt.Sprintf("%s: %v vs %v", path, x, y)
		}
		return ""
	}
	switch t.Kind() {
	case reflect.Bool:
		if a.Bool() != b.Bool() {
			return fmt.Sprintf("%s: %v vs %v", path, a.Bool(), b.Bool())
		}
	case reflect.Uint8, reflect.Uint16, reflect.Uint32, reflect.Uint64, reflect.Uint, reflect.Uintptr:
		if a.Uint() != b.Uint() {
			return fmt.Sprintf("%s: %d vs %d", path, a.Uint(), b.Uint())
		}
	case reflect.Int8, reflect.Int16, reflect.Int32, reflect.Int64, reflect.Int:
		if a.Int() != b.Int() {
			return fmt.Sprintf("%s: %d vs %d", path, a.Int(), b.Int())
		}
	case reflect.Float32, reflect.Float64:
		if a.Float() != b.Float() {
			return fmt.Sprintf("%s: %v vs %v", path, a.Float(), b.Float())
		}
	case reflect.String:
		if a.String() != b.String() {
			return fmt.Sprintf("%s: %q vs %q", path, a.String(), b.String())
		}
	case reflect.Array, reflect.Slice:
		if a.Len() != b.Len() {
			return fmt.Sprintf("%s: length %d vs %d", path, a.Len(), b.Len())
		}
		for i := 0; i < a.Len(); i++ {
			if d := c20Equal(a.Index(i), b.Index(i), fmt.Sprintf("%s[%d]", path, i)); d != "" {
				return d
			}
		}
	case reflect.Map:
		if a.Len() != b.Len() {
			return fmt.Sprintf("%s: map size %d vs %d", path, a.Len(), b.Len())
		}
		it := a.MapRange()
		for it.Next() {
			bv := b.MapIndex(it.Key())
			if !bv.IsValid() {
				return fmt.Sprintf("%s: key %v missing", path, it.Key())
			}
			if d := c20Equal(it.Value(), bv, fmt.Sprintf("%s[%v]", path, it.Key())); d != "" {
				return d
			}
		}
	case reflect.Ptr, reflect.Interface:
		if a.IsNil() != b.IsNil() {
			return fmt.Sprintf("%s: nil %v vs %v", path, a.IsNil(), b.IsNil())
		}
		if !a.IsNil() {
			return c20Equal(a.Elem(), b.Elem(), path)
		}
	case reflect.Struct:
		for i := 0; i < t.NumField(); i++ {
			f := t.Field(i)
			if f.Tag.Get("json") == "-" {
				continue
			}
			if !f.IsExported() && f.Name == "shared" {
				continue
			}
			if d := c20Equal(a.Field(i), b.Field(i), path+"."+f.Name); d != "" {
				return d
			}
		}
	default:
		return fmt.Sprintf("%s: cannot compare kind %v", path, t.Kind())
	}
	return ""
}

// c20PolicyNormalize rewrites After times to their Unix-second value in UTC (the
// text and JSON forms carry seconds; the zone is not part of the value).
func c20PolicyNormalize(p types.SpendPolicy) types.SpendPolicy {
	switch pt := p.Type.(type) {
	case types.PolicyTypeAfter:
		return types.PolicyAfter(time.Unix(time.Time(pt).Unix(), 0).UTC())
	case types.PolicyTypeThreshold:
		of := make([]types.SpendPolicy, len(pt.Of))
		for i := range of {
			of[i] = c20PolicyNormalize(pt.Of[i])
		}
		return types.PolicyThreshold(pt.N, of)
	}
	return p
}

// c20Normalize walks a value and normalizes every SpendPolicy in it.
func c20Normalize(v reflect.Value) {
	if v.Type() == c20tPolicy && v.CanSet() {
		p := v.Interface().(types.SpendPolicy)
		if p.Type != nil {
			v.Set(reflect.ValueOf(c20PolicyNormalize(p)))
		}
		return
	}
	switch v.Kind() {
	case reflect.Ptr:
		if !v.IsNil() {
			c20Normalize(v.Elem())
		}
	case reflect.Interface:
		if !v.IsNil() && v.Elem().Kind() == reflect.Ptr {
			c20Normalize(v.Elem().Elem())
		}
	case reflect.Struct:
		for i := 0; i < v.NumField(); i++ {
			if v.Type().Field(i).IsExported() {
				c20Normalize(v.Field(i))
			}
		}
	case reflect.Slice, reflect.Array:
		if v.Type().Elem().Kind() == reflect.Uint8 {
			return
		}
		for i := 0; i < v.Len(); i++ {
			c20Normalize(v.Index(i))
		}
	}
}

// c20JSONRoundTrip marshals *p, unmarshals into a fresh value and compares.
// It returns ("", …) when the round trip holds; otherwise what went wrong.
func c20JSONRoundTrip(p any) (problem string, js []byte) {
	pv := reflect.ValueOf(p)
	var err error
	panicked, msg := c20Recover(func() { js, err = json.Marshal(p) })
	if panicked {
		return "marshal panics: " + msg, nil
	}
	if err != nil {
		return "marshal fails: " + err.Error(), nil
	}
	fresh := reflect.New(pv.Type().Elem())
	panicked, msg = c20Recover(func() { err = json.Unmarshal(js, fresh.Interface()) })
	if panicked {
		return "unmarshal panics: " + msg, js
	}
	if err != nil {
		return "unmarshal of own output fails: " + err.Error(), js
	}
	// marshalling what was read must give the same bytes again
	js2, err2 := json.Marshal(fresh.Interface())
	c20Normalize(pv.Elem())
	c20Normalize(fresh.Elem())
	if d := c20Equal(pv.Elem(), fresh.Elem(), ""); d != "" {
		return "value differs after round trip at " + d, js
	}
	// the library's own notion of equality, when it has one: the binary encoding
	if et, ok := p.(types.EncoderTo); ok {
		if ft, ok := fresh.Interface().(types.EncoderTo); ok {
			var b1, b2 bytes.Buffer
			var p1, p2 bool
			p1, _ = c20Recover(func() { e := types.NewEncoder(&b1); et.EncodeTo(e); e.Flush() })
			p2, _ = c20Recover(func() { e := types.NewEncoder(&b2); ft.EncodeTo(e); e.Flush() })
			if p1 != p2 || (!p1 && !bytes.Equal(b1.Bytes(), b2.Bytes())) {
				return "binary encoding differs after JSON round trip", js
			}
		}
	}
	if err2 != nil || !bytes.Equal(js, js2) {
		return "re-marshalled JSON differs", js
	}
	return "", js
}

// c20TextRoundTrip: MarshalText → UnmarshalText into a fresh value.
func c20TextRoundTrip(p any) (problem string, text []byte, has bool) {
	m, ok1 := p.(encoding.TextMarshaler)
	pv := reflect.ValueOf(p)
	fresh := reflect.New(pv.Type().Elem())
	u, ok2 := fresh.Interface().(encoding.TextUnmarshaler)
	if !ok1 || !ok2 {
		return "", nil, false
	}
	var err error
	if panicked, msg := c20Recover(func() { text, err = m.MarshalText() }); panicked {
		return "MarshalText panics: " + msg, nil, true
	} else if err != nil {
		return "MarshalText fails: " + err.Error(), nil, true
	}
	if panicked, msg := c20Recover(func() { err = u.UnmarshalText(text) }); panicked {
		return "UnmarshalText panics: " + msg, text, true
	} else if err != nil {
		return "UnmarshalText of own output fails: " + err.Error(), text, true
	}
	if d := c20Equal(pv.Elem(), fresh.Elem(), ""); d != "" {
		return "value differs after text round trip at " + d, text, true
	}
	return "", text, true
}

// c20ZeroValueInDomain prepares the zero value of a type for the check: revisions
// get their documented Payout sentinel; it reports false when the zero value is not
// a value of the type at all (a nil policy or a nil resolution inside).
func c20ZeroValueInDomain(v reflect.Value) bool {
	switch v.Kind() {
	case reflect.Struct:
		switch v.Type() {
		case c20tPolicy:
			return !v.Field(0).IsNil()
		case c20tResolution:
			return false
		case c20tRevision:
			v.Addr().Interface().(*types.FileContractRevision).Payout = types.NewCurrency(math.MaxUint64, math.MaxUint64)
			return true
		case c20tTime:
			return true
		}
		for i := 0; i < v.NumField(); i++ {
			if v.Type().Field(i).IsExported() && !c20ZeroValueInDomain(v.Field(i)) {
				return false
			}
		}
	case reflect.Array:
		if v.Type().Elem().Kind() != reflect.Uint8 {
			for i := 0; i < v.Len(); i++ {
				if !c20ZeroValueInDomain(v.Index(i)) {
					return false
				}
			}
		}
	}
	return true
}

func c20Recover(f func()) (panicked bool, msg string) {
	defer func() {
		if r := recover(); r != nil {
			panicked = true
			msg = fmt.Sprint(r)
		}
	}()
	f()
	return
}

func c20TypeName(p any) string {
	return strings.TrimPrefix(reflect.TypeOf(p).String(), "*")
}

var _ = bits.Len64
