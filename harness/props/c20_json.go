package props

// C20 — correspondence of the JSON TREE model (lean/SiaModel/Text/JsonTree.lean,
// JsonUpdate.lean) with the real code: for generated values the compact JSON text
// the model's tree renders to must equal, byte for byte, what json.Marshal produces.
// (bytes <-> tree is encoding/json, trusted; what is compared is everything the
// hand-written marshalers decide: field names and order, omitted fields, string forms,
// map keys and their order, the `type` splice.)

import (
	"bytes"
	"encoding/hex"
	"encoding/json"
	"fmt"
	"math"
	"sort"
	"strconv"
	"strings"

	"go.sia.tech/core/consensus"
	rhp4 "go.sia.tech/core/rhp/v4"
	"go.sia.tech/core/types"
)

func c20Concat32(hs []types.Hash256, isNil bool) string {
	if hs == nil && isNil {
		return "-"
	}
	if len(hs) == 0 {
		return "e"
	}
	var sb strings.Builder
	for _, h := range hs {
		sb.WriteString(hex.EncodeToString(h[:]))
	}
	return sb.String()
}

func c20ConcatDash(hs []types.Hash256) string {
	if len(hs) == 0 {
		return "-"
	}
	return c20Concat32(hs, false)
}

// c20PolicyNilEmpty turns empty sub-policy / key lists into nil ones (the tree model
// has one empty list; JSON writes null for nil and [] for empty).
func c20PolicyNilEmpty(p types.SpendPolicy) types.SpendPolicy {
	switch pt := p.Type.(type) {
	case types.PolicyTypeThreshold:
		var of []types.SpendPolicy
		for _, sp := range pt.Of {
			of = append(of, c20PolicyNilEmpty(sp))
		}
		return types.PolicyThreshold(pt.N, of)
	case types.PolicyTypeUnlockConditions:
		if len(pt.PublicKeys) == 0 {
			pt.PublicKeys = nil
		}
		return types.SpendPolicy{Type: pt}
	}
	return p
}

func (r *c20run) jsonTrees() {
	res := r.res
	g := r.g
	n := r.c.Budget(120, 4000)
	emit := func(kind, op string, v any) {
		js, err := json.Marshal(v)
		if err != nil {
			res.Note("json tree %s: marshal failed: %v", kind, err)
			return
		}
		res.Eval("jsontree "+kind+" "+string(js), true)
		res.Count("jsontree:" + kind)
		r.model("json "+op, c20hx(js))
	}
	for i := 0; i < n; i++ {
		// ChainIndex, Work, ProtocolVersion
		ci := types.ChainIndex{Height: g.u64(), ID: types.BlockID(g.bytesN(32))}
		emit("ChainIndex", fmt.Sprintf("ci %d %s", ci.Height, c20hx(ci.ID[:])), ci)
		raw := g.bytesN(32)
		var w consensus.Work
		w.DecodeFrom(types.NewBufDecoder(raw))
		emit("Work", "work "+w.String(), w)
		v := rhp4.ProtocolVersion{uint8(g.u64()), uint8(g.u64()), uint8(g.u64())}
		emit("ProtocolVersion", fmt.Sprintf("ver %d %d %d", v[0], v[1], v[2]), v)
		// ElementAccumulator
		var acc consensus.ElementAccumulator
		acc.NumLeaves = g.u64()
		var roots []types.Hash256
		for j := range acc.Trees {
			if acc.NumLeaves&(1<<uint(j)) != 0 {
				copy(acc.Trees[j][:], g.bytesN(32))
				roots = append(roots, acc.Trees[j])
			} else if g.rng.Intn(2) == 0 {
				copy(acc.Trees[j][:], g.bytesN(32)) // stale slot: must not be written
			}
		}
		emit("ElementAccumulator", fmt.Sprintf("acc %d %s", acc.NumLeaves, c20ConcatDash(roots)), acc)
		// StorageProof
		sp := types.StorageProof{ParentID: types.FileContractID(g.bytesN(32))}
		copy(sp.Leaf[:], g.bytesN(64))
		switch g.rng.Intn(3) {
		case 0:
		case 1:
			sp.Proof = []types.Hash256{}
		default:
			for j := 0; j < 1+g.rng.Intn(3); j++ {
				sp.Proof = append(sp.Proof, types.Hash256(g.bytesN(32)))
			}
		}
		emit("StorageProof", fmt.Sprintf("sp %s %s %s", c20hx(sp.ParentID[:]), c20hx(sp.Leaf[:]), c20Concat32(sp.Proof, true)), sp)
		// SpendPolicy (object form), SatisfiedPolicy
		p := c20PolicyNilEmpty(g.policy(3))
		_, _, runeBytes := c20PolicyCorners(p)
		toks := strings.Join(c20PolicyTokens(p), " ")
		emit("SpendPolicy", "pol "+c20Runes256(runeBytes)+" "+toks, p)
		sat := types.SatisfiedPolicy{Policy: p}
		var sigs, pres strings.Builder
		for j := 0; j < g.rng.Intn(3); j++ {
			s := types.Signature(g.bytesN(64))
			sat.Signatures = append(sat.Signatures, s)
			sigs.WriteString(hex.EncodeToString(s[:]))
		}
		for j := 0; j < g.rng.Intn(3); j++ {
			var pre [32]byte
			copy(pre[:], g.bytesN(32))
			sat.Preimages = append(sat.Preimages, pre)
			pres.WriteString(hex.EncodeToString(pre[:]))
		}
		dash := func(s string) string {
			if s == "" {
				return "-"
			}
			return s
		}
		emit("SatisfiedPolicy", "sat "+dash(sigs.String())+" "+dash(pres.String())+" "+c20Runes256(runeBytes)+" "+toks, sat)
		// FileContractRevision
		uc := g.unlockConditions()
		if len(uc.PublicKeys) == 0 {
			uc.PublicKeys = nil
		}
		outs := func() ([]types.SiacoinOutput, string) {
			switch g.rng.Intn(3) {
			case 0:
				return nil, "-"
			case 1:
				return []types.SiacoinOutput{}, "0"
			}
			var os []types.SiacoinOutput
			var sb strings.Builder
			k := 1 + g.rng.Intn(3)
			sb.WriteString(strconv.Itoa(k))
			for j := 0; j < k; j++ {
				o := types.SiacoinOutput{Value: types.NewCurrency(g.u64(), g.u64()), Address: types.Address(g.bytesN(32))}
				os = append(os, o)
				fmt.Fprintf(&sb, " %s %s", o.Value.ExactString(), c20hx(o.Address[:]))
			}
			return os, sb.String()
		}
		vo, vos := outs()
		mo, mos := outs()
		rev := types.FileContractRevision{ParentID: types.FileContractID(g.bytesN(32)), UnlockConditions: uc,
			FileContract: types.FileContract{Filesize: g.u64(), FileMerkleRoot: types.Hash256(g.bytesN(32)), WindowStart: g.u64(), WindowEnd: g.u64(),
				Payout: types.NewCurrency(math.MaxUint64, math.MaxUint64), ValidProofOutputs: vo, MissedProofOutputs: mo,
				UnlockHash: types.Address(g.bytesN(32)), RevisionNumber: g.u64()}}
		var keyRunes []byte
		var ks strings.Builder
		for _, k := range uc.PublicKeys {
			keyRunes = append(append(keyRunes, k.Algorithm[:]...), 0)
			fmt.Fprintf(&ks, " %s %s", c20hx(k.Algorithm[:]), c20hx(k.Key))
		}
		emit("FileContractRevision", fmt.Sprintf("rev %s %s %d %d %d %s %d %d %s %d %d%s %s %s", c20Runes256(keyRunes), c20hx(rev.ParentID[:]),
			uc.Timelock, uc.SignaturesRequired, rev.Filesize, c20hx(rev.FileMerkleRoot[:]), rev.WindowStart, rev.WindowEnd,
			c20hx(rev.UnlockHash[:]), rev.RevisionNumber, len(uc.PublicKeys), ks.String(), vos, mos), rev)
		// the diff's resolution splice
		for _, res := range []types.V2FileContractResolutionType{new(types.V2FileContractExpiration), g.resolution(2), g.resolution(2)} {
			d := consensus.V2FileContractElementDiff{Resolution: res}
			js, err := json.Marshal(d)
			if err != nil {
				continue
			}
			var parts struct {
				Resolution json.RawMessage `json:"resolution"`
			}
			if json.Unmarshal(js, &parts) != nil {
				continue
			}
			own, _ := json.Marshal(res)
			kind := map[string]string{"*types.V2FileContractRenewal": "renewal", "*types.V2StorageProof": "storageProof", "*types.V2FileContractExpiration": "expiration"}[fmt.Sprintf("%T", res)]
			resEval := "jsontree splice " + kind + " " + string(parts.Resolution)
			r.res.Eval(resEval, true)
			r.res.Count("jsontree:splice:" + kind)
			r.model("json splice "+kind+" "+c20hx(own), c20hx(parts.Resolution))
			// statement-level: the spliced text is a well-formed object with exactly one "type"
			dec := json.NewDecoder(bytes.NewReader(parts.Resolution))
			depth, types_ := 0, 0
			for {
				tok, err := dec.Token()
				if err != nil {
					break
				}
				if dl, ok := tok.(json.Delim); ok {
					if dl == '{' || dl == '[' {
						depth++
					} else {
						depth--
					}
				} else if s, ok := tok.(string); ok && s == "type" && depth == 1 {
					types_++
				}
			}
			if !json.Valid(parts.Resolution) || types_ < 1 {
				r.violate("c20-diff-splice", "V2FileContractElementDiff resolution splice is not a well-formed object with a type field: "+string(parts.Resolution),
					map[string]any{"kind": "json", "type": "consensus.V2FileContractElementDiff", "json": string(js)}, "well-formed object with one type field", string(parts.Resolution))
			}
		}
	}
}

// modelUpdateJSON sends the accumulator part of an update's JSON to the tree model.
func (r *c20run) modelUpdateJSON(js []byte, apply bool) {
	type leaf struct {
		LeafIndex   uint64          `json:"leafIndex"`
		MerkleProof []types.Hash256 `json:"merkleProof"`
		ElementHash types.Hash256   `json:"elementHash"`
		Spent       bool            `json:"spent"`
	}
	var v struct {
		UpdatedLeaves map[int][]leaf          `json:"updatedLeaves"`
		TreeGrowth    map[int][]types.Hash256 `json:"treeGrowth"`
		OldNumLeaves  uint64                  `json:"oldNumLeaves"`
		NumLeaves     uint64                  `json:"numLeaves"`
	}
	if json.Unmarshal(js, &v) != nil {
		return
	}
	i := bytes.Index(js, []byte(`"updatedLeaves":`))
	if i < 0 {
		return
	}
	var sb strings.Builder
	if apply {
		fmt.Fprintf(&sb, "json upd %d %d %d", v.OldNumLeaves, v.NumLeaves, len(v.UpdatedLeaves))
	} else {
		fmt.Fprintf(&sb, "json rupd %d %d", v.NumLeaves, len(v.UpdatedLeaves))
	}
	var keys []int
	for k := range v.UpdatedLeaves {
		keys = append(keys, k)
	}
	sort.Ints(keys)
	for _, k := range keys {
		fmt.Fprintf(&sb, " %d %d", k, len(v.UpdatedLeaves[k]))
		for _, l := range v.UpdatedLeaves[k] {
			sp := "0"
			if l.Spent {
				sp = "1"
			}
			fmt.Fprintf(&sb, " %d %s %s %s", l.LeafIndex, c20hx(l.ElementHash[:]), sp, c20ConcatDash(l.MerkleProof))
		}
	}
	if apply {
		fmt.Fprintf(&sb, " %d", len(v.TreeGrowth))
		keys = keys[:0]
		for k := range v.TreeGrowth {
			keys = append(keys, k)
		}
		sort.Ints(keys)
		for _, k := range keys {
			fmt.Fprintf(&sb, " %d %s", k, c20Concat32(v.TreeGrowth[k], false))
		}
	}
	r.res.Count("jsontree:update")
	r.model(sb.String(), c20hx(append([]byte("{"), js[i:]...)))
}
