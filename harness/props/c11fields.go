package props

// Field placement against the COMMITTED wire layout (C11, wire-format clause).
//
// Byte-to-byte comparison with the model cannot see a symmetric permutation of same-typed
// fields in an EncodeTo/DecodeFrom pair: every round trip survives, and the bytes decode
// under the committed layout too — as a different value. Here the real encoder's output is
// cut into fields by the committed layout (`specfields`, lean/SiaModel/Codec/Spec.lean — not
// the schema regenerated from the method bodies), for a base value and for a copy of it in
// which exactly ONE top-level field was replaced: the bytes under every OTHER label must not
// move. A field written where the layout has another one shows up as a change under the
// wrong label: `c11-wire-format:field-placement:<type>`.

import (
	"fmt"
	"reflect"
	"strings"

	"verif/harness/internal/fw"
)

// record types of the committed layout whose fields are encoded independently of each other
var c11SpecRecords = map[string]bool{}

func init() {
	for _, n := range []string{
		"Types_ChainIndex", "Types_UnlockKey", "Types_UnlockConditions", "Types_V1SiacoinOutput", "Types_V1SiafundOutput",
		"Types_SiacoinInput", "Types_SiafundInput", "Types_FileContract", "Types_FileContractRevision", "Types_StorageProof",
		"Types_FoundationAddressUpdate", "Types_CoveredFields", "Types_TransactionSignature", "Types_Transaction",
		"Types_BlockHeader", "Types_V1Block", "Types_V2SiacoinOutput", "Types_V2SiafundOutput", "Types_StateElement",
		"Types_ChainIndexElement", "Types_SiacoinElement", "Types_SiafundElement", "Types_FileContractElement",
		"Types_V2FileContract", "Types_V2FileContractElement", "Types_SatisfiedPolicy", "Types_V2SiacoinInput",
		"Types_V2SiafundInput", "Types_V2FileContractRevision", "Types_V2FileContractRenewal", "Types_V2StorageProof",
		"Types_Attestation", "Consensus_V1StorageProofSupplement", "Consensus_V1TransactionSupplement", "Consensus_V1BlockSupplement",
	} {
		c11SpecRecords[n] = true
	}
}

type c11FieldCase struct {
	ct    c11Codec
	field string // "" = the base value
	base  int    // index of the base case
	hex   string
}

func c11ParseFields(line string) (map[string]string, bool) {
	parts := strings.Fields(line)
	if len(parts) < 2 || parts[0] != "ok" || parts[1] != "0" {
		return nil, false
	}
	m := map[string]string{}
	for _, p := range parts[2:] {
		k, v, ok := strings.Cut(p, "=")
		if !ok {
			return nil, false
		}
		m[k] = v
	}
	return m, true
}

func c11SpecFields(c *fw.Ctx, g *c11Gen, ts []c11Codec) {
	if c.Model == nil {
		return
	}
	reps := c.Budget(4, 40)
	var ops []string
	var cases []c11FieldCase
	for _, ct := range ts {
		if !c11SpecRecords[ct.lean] {
			continue
		}
		for r := 0; r < reps; r++ {
			p0, p1 := ct.generate(g), ct.generate(g)
			v0, v1 := reflect.ValueOf(p0).Elem(), reflect.ValueOf(p1).Elem()
			if v0.Kind() != reflect.Struct {
				break
			}
			b0, pm := c11Encode(ct, p0)
			if pm != "" {
				continue
			}
			baseIdx := len(cases)
			cases = append(cases, c11FieldCase{ct: ct, base: -1, hex: c11Hex(b0)})
			ops = append(ops, "specfields "+ct.lean+" "+c11Hex(b0))
			for i := 0; i < v0.NumField(); i++ {
				sf := v0.Type().Field(i)
				if !sf.IsExported() {
					continue
				}
				q := ct.newPtr()
				w := reflect.ValueOf(q).Elem()
				c11DeepCopy(w, v0)
				c11DeepCopy(w.Field(i), v1.Field(i))
				g.normaliseIf(w)
				if ct.norm != nil {
					ct.norm(q)
				}
				if c11NormEq(v0, w) {
					c.Res.Count("field-placement:replacement-equal")
					continue
				}
				bq, pm := c11Encode(ct, q)
				if pm != "" {
					continue
				}
				cases = append(cases, c11FieldCase{ct: ct, field: sf.Name, base: baseIdx, hex: c11Hex(bq)})
				ops = append(ops, "specfields "+ct.lean+" "+c11Hex(bq))
			}
		}
	}
	if len(ops) == 0 {
		return
	}
	c.Res.ModelUsed = true
	out, err := c.Model.Eval(ops)
	if err != nil {
		c.Res.Disagree(fw.Disagreement{Op: "(driver)", Model: err.Error(), Note: "model driver failed (specfields)"})
		return
	}
	parsed := make([]map[string]string, len(out))
	okv := make([]bool, len(out))
	for i := range out {
		parsed[i], okv[i] = c11ParseFields(out[i])
	}
	for i, cs := range cases {
		c.Res.ModelOps++
		if cs.base < 0 {
			if !okv[i] {
				// the committed layout does not accept the real encoder's output at all
				c.Res.Violate(fw.Violation{Key: "c11-wire-format:layout-refuses:" + cs.ct.goName,
					What:     fmt.Sprintf("the committed byte layout of %s does not accept (or does not consume) the encoding of a generated value: %s", cs.ct.goName, out[i]),
					Replay:   map[string]any{"kind": "specfields", "type": cs.ct.lean, "hex": cs.hex},
					Expected: "ok 0 <fields>", Observed: out[i]})
			}
			continue
		}
		c.Res.Eval("specfields "+cs.ct.lean+" "+cs.field+" "+cs.hex, true)
		if !okv[i] || !okv[cs.base] {
			c.Res.Count("field-placement:layout-refuses")
			continue
		}
		base := parsed[cs.base]
		if _, has := base[cs.field]; !has {
			c.Res.Count("field-placement:field-without-label:" + cs.ct.goName + "." + cs.field)
			continue
		}
		c.Res.Count("field-placement:checked")
		var moved []string
		for label, hx := range parsed[i] {
			if label != cs.field && base[label] != hx {
				moved = append(moved, label)
			}
		}
		if len(moved) > 0 {
			c.Res.Violate(fw.Violation{Key: "c11-wire-format:field-placement:" + cs.ct.goName,
				What: fmt.Sprintf("replacing only field %s of a %s changes the bytes the committed layout assigns to %v: the field is not written where the wire format has it",
					cs.field, cs.ct.goName, moved),
				Replay:   map[string]any{"kind": "specfields", "type": cs.ct.lean, "field": cs.field, "base": cases[cs.base].hex, "changed": cs.hex},
				Expected: "only the bytes under label " + cs.field + " change", Observed: fmt.Sprintf("labels %v changed", moved)})
		}
	}
}
