package props

// C11 — Binary encoding round-trips, is canonical, field-complete, wire-format exact.
//
// Go side, written from the property statement: for values of EVERY type with an
// encoder/decoder pair (table c11Types), decode(encode(v)) equals v up to the
// documented normalisations, re-encoding is byte-identical, encoding is
// deterministic and injective, every proper prefix of an encoding fails to decode
// (error, never a partial value, never a panic), and changing any single field
// changes the bytes. Correspondence: the same bytes go to the Lean schema model
// generated from the EncodeTo/DecodeFrom bodies (`codec <Type> <hex>`).

import (
	"bytes"
	"encoding/json"
	"fmt"
	"io"
	"math/rand"
	"reflect"
	"strings"
	"time"

	"go.sia.tech/core/types"
	"verif/harness/internal/fw"
)

func init() { fw.Register("C11", runC11) }

func c11Encode(ct c11Codec, p any) (out []byte, panicMsg string) {
	var buf bytes.Buffer
	panicked, msg := fw.Recover(func() {
		enc, _ := ct.codec(p)
		e := types.NewEncoder(&buf)
		enc.EncodeTo(e)
		e.Flush()
	})
	if panicked {
		return nil, msg
	}
	return buf.Bytes(), ""
}

type c11Outcome struct {
	p        any
	err      error
	panicked bool
	panicMsg string
	rest     int
	elapsed  time.Duration
}

// c11Decode decodes b into a fresh object exactly as NewBufDecoder would
// (limited reader sized to the input), reporting the unread remainder.
func c11Decode(ct c11Codec, b []byte) c11Outcome {
	p := ct.newPtr()
	r := bytes.NewReader(b)
	d := types.NewDecoder(io.LimitedReader{R: r, N: int64(len(b))})
	t0 := time.Now()
	var out c11Outcome
	out.p = p
	out.panicked, out.panicMsg = fw.Recover(func() {
		_, dec := ct.codec(p)
		dec.DecodeFrom(d)
	})
	out.elapsed = time.Since(t0)
	out.err = d.Err()
	out.rest = r.Len()
	return out
}

// c11GoLine is the canonical answer of the Go side to `codec <Type> <hex>`.
func c11GoLine(ct c11Codec, o c11Outcome) string {
	if o.panicked {
		return "panic"
	}
	if o.err != nil {
		return "err"
	}
	b, pm := c11Encode(ct, o.p)
	if pm != "" {
		return "encode-panic"
	}
	return "ok " + c11Hex(b) + " " + fmt.Sprint(o.rest)
}

func c11Hex(b []byte) string {
	if len(b) == 0 {
		return "-"
	}
	return fw.Hex(b)
}

func (ct c11Codec) generate(g *c11Gen) any {
	p := ct.newPtr()
	if ct.gen != nil {
		ct.gen(g, p)
		return p
	}
	v := reflect.ValueOf(p).Elem()
	if len(ct.fields) > 0 {
		for _, f := range ct.fields {
			g.fill(v.FieldByName(f), 3)
		}
		return p
	}
	g.fill(v, 3)
	return p
}

// mutable field paths of a struct value: exported fields, and one level into
// plain nested structs.
func c11FieldPaths(ct c11Codec, v reflect.Value) [][]int {
	t := v.Type()
	if t.Kind() != reflect.Struct || t == c11tTime || t == c11tCurrency || t == c11tPolicy || t == c11tWork || t == c11tV2Data || t == c11tOutline {
		return nil
	}
	allowed := func(name string) bool {
		if len(ct.fields) == 0 {
			return true
		}
		for _, f := range ct.fields {
			if f == name {
				return true
			}
		}
		return false
	}
	var out [][]int
	for i := 0; i < t.NumField(); i++ {
		f := t.Field(i)
		if !f.IsExported() || !allowed(f.Name) {
			continue
		}
		out = append(out, []int{i})
		ft := f.Type
		if ft.Kind() == reflect.Struct && ft != c11tTime && ft != c11tCurrency && ft != c11tPolicy && ft != c11tWork && ft != c11tV2Data && ft != c11tOutline && !ft.ConvertibleTo(c11tTime) {
			for j := 0; j < ft.NumField(); j++ {
				if ft.Field(j).IsExported() {
					out = append(out, []int{i, j})
				}
			}
		}
	}
	return out
}

func c11PathName(t reflect.Type, path []int) string {
	var parts []string
	for _, i := range path {
		f := t.Field(i)
		parts = append(parts, f.Name)
		t = f.Type
	}
	return strings.Join(parts, ".")
}

type c11Model struct {
	ops  []string
	want []string
	wire map[int]c11WireCase // op index -> the value behind a `codec <T> <encoding>` op
}

// c11WireCase: a value and its Go encoding; if the model re-encodes the same value to other
// bytes, the wire format of a pinned type has changed (see c11WireCheck).
type c11WireCase struct {
	ct c11Codec
	p  any
	b  []byte
}

func (m *c11Model) add(op, want string) {
	m.ops = append(m.ops, op)
	m.want = append(m.want, want)
}

func (m *c11Model) addWire(op, want string, w c11WireCase) {
	if m.wire == nil {
		m.wire = map[int]c11WireCase{}
	}
	m.wire[len(m.ops)] = w
	m.add(op, want)
}

// c11Known asks the model which codec names it has a schema for.
func c11Known(c *fw.Ctx, ts []c11Codec) map[string]bool {
	known := map[string]bool{}
	if c.Model == nil {
		return known
	}
	ops := make([]string, len(ts))
	for i, ct := range ts {
		ops[i] = "codec " + ct.lean + " -"
	}
	res, err := c.Model.Eval(ops)
	if err != nil {
		c.Res.Disagree(fw.Disagreement{Op: "(driver)", Model: err.Error(), Note: "model driver failed"})
		return known
	}
	for i, ct := range ts {
		if res[i] != "bad-op" {
			known[ct.lean] = true
		}
	}
	return known
}

func runC11(c *fw.Ctx) {
	res := c.Res
	res.Rule = "for every type with an encoder/decoder pair in types, consensus, gateway, rhp/v2, rhp/v3, rhp/v4: seeded reflection-generated values (boundary currencies 0/2^64/max, nil vs empty slices, zero/max timestamps, all resolution kinds, policies nested up to 32 deep, every instruction kind; plus, for every byte-string / string / small-element slice field of every type, sizes n-1, n, n+1, 2n, 2n+1 around the Encoder's and Decoder's internal buffer sizes n (generated facts) and multi-KiB sizes); plus a stream of REAL blocks from the chain simulator (modes v2, mixed, legacy) and directed blocks referencing one accumulator leaf two and three times, as V2Block / V2BlockData and inside RPCSendV2Blocks / RPCSendCheckpoint / RPCRelayV2BlockOutline / V2BlockOutline); per value: round trip up to the documented normalisations, byte-identical re-encoding, determinism, injectivity, every proper prefix fails (all prefixes up to 400 bytes, sampled beyond), single-field mutation changes the bytes; the encoding and a sample of prefixes are also decoded and re-encoded by the Lean schema generated from the method bodies. A case is non-trivial when the encoding is non-empty; distinct by (type, bytes)."
	ts := c11Types()
	if c.Replay != "" {
		c11Replay(c, ts)
		return
	}
	known := c11Known(c, ts)
	g := &c11Gen{rng: c.Rng}
	perType := c.Budget(24, 600)
	model := &c11Model{}
	consts := c11GetConsts(c)
	for _, ct := range ts {
		c11Type(c, g, ct, perType, known[ct.lean], model)
		c11Blobs(c, g, ct, consts, known[ct.lean], model)
		c11Edges(c, g, ct, known[ct.lean], model)
	}
	c11Golden(c)
	c11Chain(c, g, known, model)
	c11PolicyDirected(c, g, known, model)
	c11SpecFields(c, g, ts)
	res.CountN("types", len(ts))
	res.CountN("types-with-generated-schema", len(known))
	c11Compare(c, model)
}

// c11Compare pipes the ops to the model; an answer `unsupported` (the schema reaches
// an irregular codec that has no Lean model yet) is counted, not compared.
func c11Compare(c *fw.Ctx, m *c11Model) {
	if c.Model == nil || len(m.ops) == 0 {
		return
	}
	c.Res.ModelUsed = true
	out, err := c.Model.Eval(m.ops)
	if err != nil {
		c.Res.Disagree(fw.Disagreement{Op: "(driver)", Model: err.Error(), Note: "model driver failed"})
		return
	}
	for i := range m.ops {
		if out[i] == "unsupported" {
			c.Res.Count("model:reaches-unmodelled-irregular-codec")
			continue
		}
		c.Res.ModelOps++
		if out[i] != m.want[i] {
			c.Res.Disagree(fw.Disagreement{Op: m.ops[i], Go: m.want[i], Model: out[i]})
			if w, ok := m.wire[i]; ok {
				c11WireCheck(c, w, out[i])
			}
		}
	}
}

func c11Violate(c *fw.Ctx, key, what string, ct c11Codec, input []byte, exp, obs string) {
	c.Res.Violate(fw.Violation{Key: key, What: what,
		Replay:   map[string]any{"kind": "codec", "type": ct.lean, "hex": fw.Hex(input)},
		Expected: exp, Observed: obs})
}

func c11Type(c *fw.Ctx, g *c11Gen, ct c11Codec, n int, modelled bool, model *c11Model) {
	seen := map[string]any{} // encoding -> value (injectivity)
	for i := 0; i < n; i++ {
		p := ct.generate(g)
		if c11CheckValue(c, g, ct, p, modelled, model, seen, "") && (i < 8 || c.Thorough()) {
			// field completeness: change one field, the bytes must change
			b, _ := c11Encode(ct, p)
			c11Mutate(c, g, ct, p, b)
		}
	}
}

// c11CheckValue runs the per-value statements (round trip, re-encode, determinism,
// injectivity, truncation) and queues the model comparison; false if the value could
// not be encoded and decoded back.
func c11CheckValue(c *fw.Ctx, g *c11Gen, ct c11Codec, p any, modelled bool, model *c11Model, seen map[string]any, tag string) bool {
	res := c.Res
	i := 1
	if tag == "" {
		i = len(seen)
	}
	{
		b, pm := c11Encode(ct, p)
		if pm != "" {
			c11Violate(c, "c11-encode-panic:"+ct.goName, "encoding a well-formed value panics: "+pm, ct, nil, "bytes", "panic")
			return false
		}
		res.Eval(ct.lean+" "+fw.Hex(b), len(b) > 0)
		res.Count("pkg:" + strings.SplitN(ct.goName, ".", 2)[0])
		switch {
		case len(b) == 0:
			res.Count("size:empty")
		case len(b) <= 64:
			res.Count("size:1-64")
		case len(b) <= 1024:
			res.Count("size:65-1024")
		default:
			res.Count("size:>1024")
		}
		if i == 0 && len(res.Samples) < 12 && len(b) < 200 {
			res.Sample(map[string]string{"type": ct.goName, "encoding": fw.Hex(b)})
		}
		// determinism
		if b2, _ := c11Encode(ct, p); !bytes.Equal(b, b2) {
			c11Violate(c, "c11-nondeterministic:"+ct.goName, "encoding the same value twice gives different bytes", ct, b, fw.Hex(b), fw.Hex(b2))
		}
		// round trip
		o := c11Decode(ct, b)
		switch {
		case o.panicked:
			c11Violate(c, "c11-roundtrip:"+ct.goName, "decoding a valid encoding panics: "+o.panicMsg, ct, b, "value", "panic")
			return false
		case o.err != nil:
			c11Violate(c, "c11-roundtrip:"+ct.goName, "decoding a valid encoding fails: "+o.err.Error(), ct, b, "value", "error")
			return false
		case o.rest != 0:
			c11Violate(c, "c11-roundtrip:"+ct.goName, "decoding a valid encoding leaves bytes unread", ct, b, "0 bytes left", fmt.Sprint(o.rest))
		}
		if !c11NormEq(reflect.ValueOf(p).Elem(), reflect.ValueOf(o.p).Elem()) {
			c11Violate(c, "c11-roundtrip:"+ct.goName, "decode(encode(v)) differs from v beyond the documented normalisations at "+c11DiffPath(reflect.ValueOf(p).Elem(), reflect.ValueOf(o.p).Elem(), "v"), ct, b,
				fmt.Sprintf("%+v", reflect.ValueOf(p).Elem().Interface()), fmt.Sprintf("%+v", reflect.ValueOf(o.p).Elem().Interface()))
		}
		// re-encode
		if b3, pm := c11Encode(ct, o.p); pm != "" || !bytes.Equal(b, b3) {
			c11Violate(c, "c11-reencode:"+ct.goName, "re-encoding the decoded value gives different bytes", ct, b, fw.Hex(b), fw.Hex(b3)+pm)
		}
		// injectivity
		if q, ok := seen[string(b)]; ok && seen != nil {
			if !c11NormEq(reflect.ValueOf(p).Elem(), reflect.ValueOf(q).Elem()) {
				c11Violate(c, "c11-not-injective:"+ct.goName, "two different values have the same encoding", ct, b, "different bytes", "same bytes")
			}
		} else if seen != nil {
			seen[string(b)] = p
		}
		if modelled {
			model.addWire("codec "+ct.lean+" "+c11Hex(b), "ok "+c11Hex(b)+" 0", c11WireCase{ct, p, b})
		}
		// truncation: all proper prefixes of short encodings, a sample of long ones
		var cuts []int
		if len(b) <= 400 {
			for k := 0; k < len(b); k++ {
				cuts = append(cuts, k)
			}
		} else {
			for k := 0; k < 48; k++ {
				cuts = append(cuts, g.rng.Intn(len(b)))
			}
			cuts = append(cuts, 0, 1, 7, 8, 9, len(b)-1, len(b)-2, len(b)-8, len(b)-9)
		}
		for _, k := range cuts {
			po := c11Decode(ct, b[:k])
			res.Count("truncations")
			if po.panicked {
				c11Violate(c, "c11-truncation-panic:"+ct.goName, "decoding a truncated encoding panics: "+po.panicMsg, ct, b[:k], "error", "panic")
			} else if po.err == nil {
				c11Violate(c, "c11-truncation-accepted:"+ct.goName, fmt.Sprintf("a proper prefix (%d of %d bytes) of an encoding decodes without error", k, len(b)), ct, b[:k], "error", "value")
			}
		}
		if modelled && len(b) > 0 {
			for j := 0; j < 3; j++ {
				k := g.rng.Intn(len(b))
				model.add("codec "+ct.lean+" "+c11Hex(b[:k]), c11GoLine(ct, c11Decode(ct, b[:k])))
			}
		}
	}
	return true
}

func c11Mutate(c *fw.Ctx, g *c11Gen, ct c11Codec, p any, b []byte) {
	v := reflect.ValueOf(p).Elem()
	paths := c11FieldPaths(ct, v)
	if paths == nil {
		paths = [][]int{nil} // not a struct: change the whole value
	}
	for _, path := range paths {
		changed := false
		var q any
		for try := 0; try < 6 && !changed; try++ {
			q = ct.newPtr()
			w := reflect.ValueOf(q).Elem()
			c11DeepCopy(w, v)
			if ct.gen != nil && path == nil {
				ct.gen(g, q)
			} else if ct.gen != nil && ct.norm == nil {
				// custom generator without a normal-form hook: regenerate as a whole
				ct.gen(g, q)
			} else {
				f := w
				for _, i := range path {
					f = f.Field(i)
				}
				g.fill(f, 3)
				// re-establish the normal form of every enclosing struct
				f = w
				g.normaliseIf(f)
				for _, i := range path[:max(0, len(path)-1)] {
					f = f.Field(i)
					g.normaliseIf(f)
				}
				g.normaliseIf(w)
				if ct.norm != nil {
					ct.norm(q)
				}
			}
			changed = !c11NormEq(v, w)
		}
		name := "(value)"
		if path != nil {
			name = c11PathName(v.Type(), path)
		}
		if !changed {
			c.Res.Count("mutation:no-change-in-normal-form:" + ct.goName + "." + name)
			continue
		}
		c.Res.Count("mutation:checked")
		b2, pm := c11Encode(ct, q)
		if pm == "" && bytes.Equal(b, b2) {
			c.Res.Violate(fw.Violation{Key: "c11-field-ignored:" + ct.goName + "." + name,
				What:     "changing field " + name + " does not change the encoding (and the field is not documented as not transmitted)",
				Replay:   map[string]any{"kind": "codec", "type": ct.lean, "hex": fw.Hex(b)},
				Expected: "different bytes", Observed: "identical bytes"})
		}
	}
}

func (g *c11Gen) normaliseIf(v reflect.Value) {
	if v.Kind() == reflect.Struct && v.CanAddr() {
		g.normalise(v)
	}
}

// c11Replay re-runs one stored case: decode the bytes as the type, check the
// re-encode / truncation statements on them.
func c11Replay(c *fw.Ctx, ts []c11Codec) {
	var v struct {
		Replay struct {
			Kind, Type, Hex string
		}
	}
	b, err := readFile(c.Replay)
	if err != nil { // ./check runs the harness from harness/: try relative to the framework root
		b, err = readFile("../" + c.Replay)
	}
	if err != nil || json.Unmarshal(b, &v) != nil {
		c.Res.Note("replay file unreadable")
		return
	}
	var in []byte
	fmt.Sscanf(v.Replay.Hex, "%x", &in)
	for _, ct := range ts {
		if ct.lean != v.Replay.Type {
			continue
		}
		g := &c11Gen{rng: rand.New(rand.NewSource(c.Seed))}
		o := c11Decode(ct, in)
		c.Res.Eval(ct.lean+" "+v.Replay.Hex, true)
		c.Res.Note("replay %s: %s", ct.goName, c11GoLine(ct, o))
		if o.panicked {
			c11Violate(c, "c10-decode-panic:"+ct.goName, "decoding panics: "+o.panicMsg, ct, in, "value or error", "panic")
			return
		}
		if o.err == nil {
			// the decoded value must obey the round-trip statements
			b2, _ := c11Encode(ct, o.p)
			o2 := c11Decode(ct, b2)
			if o2.err != nil || o2.panicked || !c11NormEq(reflect.ValueOf(o.p).Elem(), reflect.ValueOf(o2.p).Elem()) {
				c11Violate(c, "c11-roundtrip:"+ct.goName, "decode(encode(v)) differs from v", ct, b2, "v", "different")
			}
			for k := 0; k < len(b2); k++ {
				if po := c11Decode(ct, b2[:k]); !po.panicked && po.err == nil {
					c11Violate(c, "c11-truncation-accepted:"+ct.goName, "a proper prefix decodes without error", ct, b2[:k], "error", "value")
				}
			}
			c11Mutate(c, g, ct, o.p, b2)
		}
	}
}
