package props

// Correspondence of the REGENERATED definitions (T-code with loops, nil-able pointers, regions) with the real
// functions they were translated from: the harness abstracts a real block / transaction to the few numbers the
// function reads, asks the compiled Lean driver to run the generated definition on them (`genrun …`) and compares
// with what the real function answers. This puts the translator's newer constructs under the same behavioural check
// as the hand-written models.

import (
	"fmt"
	"strings"

	"go.sia.tech/core/consensus"
	"go.sia.tech/core/types"

	"verif/harness/internal/fw"
)

var genrunPayoutMsgs = []string{
	"transaction fee has zero value", "transaction fees overflow", "v2 transaction fees overflow",
	"block must have exactly one miner payout", "miner payout has zero value", "miner payouts overflow",
}

// genrunPayouts: the op line for Gen.Consensus.validateMinerPayouts on (s, b) and the real verdict, read off
// consensus.ValidateOrphan (weight check, then validateMinerPayouts, then the header). ok=false when the real
// verdict about the payouts cannot be observed (the weight check fails first).
func genrunPayouts(s consensus.State, b types.Block) (op, out string, ok bool) {
	if s.Network == nil {
		return "", "", false
	}
	list := func(cs []types.Currency) string {
		if len(cs) == 0 {
			return "-"
		}
		xs := make([]string, len(cs))
		for i, c := range cs {
			xs[i] = c.ExactString()
		}
		return strings.Join(xs, ",")
	}
	var pays []types.Currency
	for _, p := range b.MinerPayouts {
		pays = append(pays, p.Value)
	}
	v1 := "-"
	if len(b.Transactions) > 0 {
		ts := make([]string, len(b.Transactions))
		for i, t := range b.Transactions {
			ts[i] = list(t.MinerFees)
		}
		v1 = strings.Join(ts, ";")
	}
	v2 := "nil"
	if b.V2 != nil {
		var fees []types.Currency
		for _, t := range b.V2.Transactions {
			fees = append(fees, t.MinerFee)
		}
		v2 = list(fees)
	}
	op = fmt.Sprintf("genrun payouts %s %s %d %s %s %s", s.Network.InitialCoinbase.ExactString(), s.Network.MinimumCoinbase.ExactString(),
		s.Index.Height, list(pays), v1, v2)
	err := consensus.ValidateOrphan(s, b)
	if err == nil {
		return op, "ok", true
	}
	msg := err.Error()
	if strings.HasPrefix(msg, "block exceeds maximum weight") {
		return "", "", false
	}
	for _, m := range genrunPayoutMsgs {
		if msg == m {
			return op, "err " + m, true
		}
	}
	if strings.HasPrefix(msg, "miner payout sum (") {
		return op, "err miner payout sum (%v) does not match block reward + fees (%v)", true
	}
	return op, "ok", true // a later check (header, height) failed: the payouts had passed
}

// genrunCoveredFields: random covered-fields values against transactions with random list lengths: the regenerated
// validCoveredFields (closure inRange + body) must answer what the real one answers (hook VerifValidCoveredFields).
func genrunCoveredFields(c *fw.Ctx) {
	if c.Model == nil {
		return
	}
	var ops, outs []string
	n := c.Budget(3000, 60000)
	for k := 0; k < n; k++ {
		lens := make([]int, 10)
		for i := range lens {
			lens[i] = c.Rng.Intn(4)
		}
		mk := func(i int) []uint64 {
			m := c.Rng.Intn(3)
			if c.Rng.Intn(3) > 0 {
				m = 0
			}
			xs := make([]uint64, m)
			for j := range xs {
				switch c.Rng.Intn(6) {
				case 0:
					xs[j] = uint64(lens[i]) // just out of range
				case 1:
					xs[j] = ^uint64(0)
				case 2:
					xs[j] = 1 << 63
				default:
					xs[j] = uint64(c.Rng.Intn(lens[i] + 1))
				}
			}
			return xs
		}
		cf := types.CoveredFields{WholeTransaction: c.Rng.Intn(3) == 0,
			SiacoinInputs: mk(0), SiacoinOutputs: mk(1), FileContracts: mk(2), FileContractRevisions: mk(3), StorageProofs: mk(4),
			SiafundInputs: mk(5), SiafundOutputs: mk(6), MinerFees: mk(7), ArbitraryData: mk(8), Signatures: mk(9)}
		txn := types.Transaction{SiacoinInputs: make([]types.SiacoinInput, lens[0]), SiacoinOutputs: make([]types.SiacoinOutput, lens[1]),
			FileContracts: make([]types.FileContract, lens[2]), FileContractRevisions: make([]types.FileContractRevision, lens[3]),
			StorageProofs: make([]types.StorageProof, lens[4]), SiafundInputs: make([]types.SiafundInput, lens[5]),
			SiafundOutputs: make([]types.SiafundOutput, lens[6]), MinerFees: make([]types.Currency, lens[7]),
			ArbitraryData: make([][]byte, lens[8]), Signatures: make([]types.TransactionSignature, lens[9])}
		show := func(xs []uint64) string {
			if len(xs) == 0 {
				return "-"
			}
			ss := make([]string, len(xs))
			for i, x := range xs {
				ss[i] = fmt.Sprint(x)
			}
			return strings.Join(ss, ",")
		}
		ls := make([]string, 10)
		for i, l := range lens {
			ls[i] = fmt.Sprint(l)
		}
		whole := "0"
		if cf.WholeTransaction {
			whole = "1"
		}
		op := strings.Join([]string{"genrun coveredfields", whole, show(cf.SiacoinInputs), show(cf.SiacoinOutputs), show(cf.FileContracts),
			show(cf.FileContractRevisions), show(cf.StorageProofs), show(cf.SiafundInputs), show(cf.SiafundOutputs), show(cf.MinerFees),
			show(cf.ArbitraryData), show(cf.Signatures), strings.Join(ls, ",")}, " ")
		var got bool
		panicked, _ := fw.Recover(func() { got = consensus.VerifValidCoveredFields(txn, cf) })
		out := fmt.Sprint(got)
		if panicked {
			out = "panic"
		}
		c.Res.Count("genrun:validCoveredFields:" + out)
		ops, outs = append(ops, op), append(outs, out)
	}
	c.Compare(ops, outs)
}
