module verif/harness

go 1.26.0

require (
	go.sia.tech/core v0.0.0
	golang.org/x/crypto v0.55.0
	golang.org/x/sys v0.47.0
)

require (
	go.sia.tech/mux v1.5.3 // indirect
	lukechampine.com/frand v1.5.1 // indirect
)

replace go.sia.tech/core => /repo
