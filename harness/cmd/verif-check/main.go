package main

import (
	"encoding/json"
	"flag"
	"fmt"
	"math/rand"
	"os"
	"runtime/debug"
	"strings"
	"time"

	"verif/harness/internal/fw"
	_ "verif/harness/props"
)

func main() {
	prop := flag.String("prop", "", "property id (C01..C20)")
	tier := flag.String("tier", "quick", "quick|thorough")
	seed := flag.Int64("seed", 1, "PRNG seed")
	driver := flag.String("driver", "", "path of the compiled Lean model driver ('' = no model)")
	out := flag.String("out", "", "result JSON path")
	search := flag.Bool("search", false, "a proof or tie broke: search for a failing input with the thorough budget")
	replay := flag.String("replay", "", "replay file")
	flag.Parse()
	r := fw.Lookup(*prop)
	if r == nil {
		fmt.Fprintf(os.Stderr, "unknown property %q (have %v)\n", *prop, fw.Props())
		os.Exit(2)
	}
	ctx := &fw.Ctx{Seed: *seed, Tier: *tier, Search: *search, Rng: rand.New(rand.NewSource(*seed)), Res: fw.NewResult(*prop), Replay: *replay}
	if *driver != "" {
		m, err := fw.NewModel(*driver)
		if err != nil {
			fmt.Fprintln(os.Stderr, "model driver unavailable:", err)
		} else {
			ctx.Model = m
		}
	}
	t0 := time.Now()
	func() {
		// a panic that escapes a property runner comes out of a library call the runner did not expect to panic
		// (a client-side API such as UpdateElementProof, a constructor, an encoder): report it as a violation with
		// the stack instead of dying, so that the findings collected so far are kept
		defer func() {
			if p := recover(); p != nil {
				stack := string(debug.Stack())
				if len(stack) > 3000 {
					stack = stack[:3000]
				}
				ctx.Res.Violate(fw.Violation{Key: strings.ToLower(*prop) + "-panic-in-library-call", What: fmt.Sprintf("a library call made by the %s check panicked: %v", *prop, p),
					Replay: map[string]any{"panic": fmt.Sprint(p), "stack": stack, "seed": *seed, "tier": *tier}, Expected: "no panic", Observed: fmt.Sprint(p)})
			}
		}()
		r(ctx)
	}()
	res := ctx.Res
	if res.Disagreements == nil {
		res.Disagreements = []fw.Disagreement{}
	}
	if res.Violations == nil {
		res.Violations = []fw.Violation{}
	}
	type outT struct {
		*fw.Result
		WallS float64 `json:"wall_s"`
	}
	b, _ := json.MarshalIndent(outT{res, time.Since(t0).Seconds()}, "", " ")
	if *out != "" {
		os.WriteFile(*out, b, 0o644)
	} else {
		os.Stdout.Write(b)
	}
	fmt.Fprintf(os.Stderr, "%s: %d evaluations, %d model ops, %d disagreements, %d violations (%.1fs)\n", *prop, res.Evaluations, res.ModelOps, len(res.Disagreements), len(res.Violations), time.Since(t0).Seconds())
}
