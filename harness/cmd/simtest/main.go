package main

import (
	"encoding/json"
	"flag"
	"fmt"
	"math/rand"
	"sort"

	"verif/harness/internal/chain"
)

func main() {
	seeds := flag.Int("seeds", 20, "")
	blocks := flag.Int("blocks", 60, "")
	verbose := flag.Bool("v", false, "")
	flag.Parse()
	total := map[string]int{}
	fails := 0
	for _, mode := range []string{"v1", "mixed", "v2", "legacy"} {
		for seed := 0; seed < *seeds; seed++ {
			s := chain.NewSim(rand.New(rand.NewSource(int64(seed))), mode)
			for i := 0; i < *blocks; i++ {
				if pl, _, err := s.Step(); err != nil {
					fmt.Println(mode, seed, err)
					if *verbose {
						for _, t := range pl.Block.Transactions {
							b, _ := json.Marshal(t)
							fmt.Println(string(b))
						}
					}
					fails++
					break
				}
			}
			for k, v := range s.Counts {
				total[k] += v
			}
		}
	}
	var ks []string
	for k := range total {
		ks = append(ks, k)
	}
	sort.Strings(ks)
	for _, k := range ks {
		fmt.Println(k, total[k])
	}
	fmt.Println("fails", fails)
}
